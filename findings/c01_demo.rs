// Demonstrations of the C01 defects found by the solver on the unchanged tree (53644d4 + hooks),
// replayed against the real public API.  Run as an integration test of the `minidump` crate:
//   cp /verif/findings/c01_demo.rs <worktree>/minidump/tests/verif_c01_demo.rs
//   cargo test -p minidump --offline --test verif_c01_demo -- --test-threads 1
// Each test FAILS (panic / abort) before the corresponding "fix:" commit and passes after it.
use minidump::*;

struct Sink;
impl std::io::Write for Sink {
    fn write(&mut self, b: &[u8]) -> std::io::Result<usize> { Ok(b.len()) }
    fn flush(&mut self) -> std::io::Result<()> { Ok(()) }
}

#[test]
fn exception_print_number_parameters_16() {
    // counterexample of harness c01_q_exception_read_print: number_parameters = 16 (> 15 array entries)
    let mut bytes = [0u8; 168];
    bytes[32] = 16; // exception_record.number_parameters (little endian) at stream offset 8+24
    let e = MinidumpException::read(&bytes, &bytes, Endian::Little, None).unwrap();
    e.print(&mut Sink, None, None).unwrap();
}

#[test]
fn handle_object_info_unknown_type() {
    // counterexample of harness c01_q_handle_object_info: info_type = 0x7fffffff
    // stream: header (16, 40, 1, 0) + one MINIDUMP_HANDLE_DESCRIPTOR_2 whose object_info_rva points at an
    // object-information record with an unknown type
    let mut all = vec![0u8; 16 + 40 + 12];
    all[0] = 16; // size_of_header
    all[4] = 40; // size_of_descriptor = sizeof(MINIDUMP_HANDLE_DESCRIPTOR_2)
    all[8] = 1; // number_of_descriptors
    let d = 16;
    all[d + 32] = 56; // object_info_rva -> offset 56
    all[56 + 4] = 0xff; all[56 + 5] = 0xff; all[56 + 6] = 0xff; all[56 + 7] = 0x7f; // info_type
    let r = MinidumpHandleDataStream::read(&all[..56], &all, Endian::Little, None);
    assert!(r.is_ok() || r.is_err());
}

#[test]
fn handle_object_info_cycle() {
    // counterexample (unwinding assertion) of harness c01_q_handle_object_info_chain: next_info_rva points at itself
    let mut all = vec![0u8; 16 + 40 + 12];
    all[0] = 16;
    all[4] = 40;
    all[8] = 1;
    all[16 + 32] = 56; // object_info_rva
    all[56] = 56; // next_info_rva = own offset -> cycle; info_type 0 is valid
    // Guard the test process: before the fix this loops forever pushing onto a Vec.
    let (tx, rx) = std::sync::mpsc::channel();
    std::thread::spawn(move || {
        let r = MinidumpHandleDataStream::read(&all[..56], &all, Endian::Little, None);
        let n = r.map(|h| h.handles[0].object_infos.len()).unwrap_or(0);
        let _ = tx.send(n);
    });
    let n = rx.recv_timeout(std::time::Duration::from_secs(5)).expect("chain walk did not terminate within 5 s");
    assert!(n <= 68 / 12, "a 68-byte file cannot hold {n} object-information records");
}

#[test]
fn handle_stream_zero_descriptor_size_capacity() {
    // counterexample of harness c01_q_handle_header_capacity: size_of_descriptor = 0, number_of_descriptors = 2^32-1
    // in a 16-byte stream: Vec::with_capacity(4294967295) of ~130-byte descriptors (~520 GiB)
    let mut all = vec![0u8; 16];
    all[0] = 16; // size_of_header
    all[8] = 0xff; all[9] = 0xff; all[10] = 0xff; all[11] = 0xff; // number_of_descriptors
    let r = MinidumpHandleDataStream::read(&all, &all, Endian::Little, None);
    assert!(r.is_err());
}

#[test]
fn context_print_ppc() {
    let mut c: format::CONTEXT_PPC = unsafe { std::mem::zeroed() };
    c.srr0 = 0x1000;
    let ctx = MinidumpContext::from_raw(MinidumpRawContext::Ppc(c));
    ctx.print(&mut Sink).unwrap();
}
