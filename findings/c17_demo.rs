// Demonstration of the C17 defect (found by harness c17_q_leafname_is_safe_component, counterexamples "..", "." and "C:x";
// the empty leaf by reading) through the public lookup API.
//   cp /verif/findings/c17_demo.rs <worktree>/breakpad-symbols/tests/verif_c17_demo.rs
//   cargo test -p breakpad-symbols --offline --test verif_c17_demo
// FAILS before the "fix:" commit for C17, passes after it.
use breakpad_symbols::{breakpad_sym_lookup, SimpleModule};
use std::path::{Component, Path};
use std::str::FromStr;

fn check(debug_file: &str) {
    let id = debugid::DebugId::from_str("abcd1234-abcd-1234-abcd-abcd12345678-a").unwrap();
    let m = SimpleModule::new(debug_file, id);
    if let Some(l) = breakpad_sym_lookup(&m) {
        let joined = Path::new("/symbols").join(&l.cache_rel);
        assert!(joined.starts_with("/symbols"), "{debug_file:?} -> {:?} -> {joined:?}", l.cache_rel);
        assert!(!Path::new(&l.cache_rel).components().any(|c| matches!(c, Component::ParentDir | Component::RootDir | Component::Prefix(_))),
            "{debug_file:?} -> {:?}", l.cache_rel);
        assert!(!l.cache_rel.starts_with("C:"), "{debug_file:?} -> {:?}", l.cache_rel);
    }
}
#[test] fn dotdot() { check("a/.."); }
#[test] fn dotdot_backslash() { check("C:\\build\\.."); }
#[test] fn empty() { check(""); }
#[test] fn trailing_separator() { check("dir/"); }
#[test] fn drive_relative() { check("C:evil.pdb"); }
#[test] fn plain() { check("/usr/lib/libfoo.so"); }
