//! Shared harness support.
use std::io;

/// A sink whose `write_fmt` drops the arguments unformatted: the *arguments* of
/// every `write!` in a print routine are still evaluated (index expressions,
/// arithmetic), `Display`/`Debug` bodies are not.
pub struct NullSink;
impl io::Write for NullSink {
    fn write(&mut self, b: &[u8]) -> io::Result<usize> {
        Ok(b.len())
    }
    fn flush(&mut self) -> io::Result<()> {
        Ok(())
    }
    fn write_fmt(&mut self, _a: std::fmt::Arguments<'_>) -> io::Result<()> {
        Ok(())
    }
}

#[cfg(kani)]
pub fn any_endian() -> scroll::Endian {
    if kani::any() {
        scroll::Endian::Little
    } else {
        scroll::Endian::Big
    }
}

/// Stub for `alloc::fmt::format` (used with `#[kani::stub]`): message text is
/// never the subject of a claimed property.
pub fn stub_format(_args: std::fmt::Arguments<'_>) -> String {
    String::new()
}

/// Stub for `core::str::from_utf8`: the real validator does word-at-a-time reads behind
/// `align_offset`, which CBMC cannot fold.  Any outcome is allowed (over-approximation);
/// UTF-8 validity itself is never the subject of a claimed property.
#[cfg(kani)]
pub fn stub_from_utf8(v: &[u8]) -> Result<&str, std::str::Utf8Error> {
    if kani::any() {
        Ok(unsafe { std::str::from_utf8_unchecked(v) })
    } else {
        // all-zero bits are a valid Utf8Error { valid_up_to: 0, error_len: None }
        Err(unsafe { std::mem::zeroed() })
    }
}

/// Stub for `encoding_rs::Encoding::decode_without_bom_handling_and_without_replacement`:
/// any outcome (malformed => None, else some string); the decoder's tables are out of scope.
#[cfg(kani)]
pub fn stub_utf16_decode<'a>(_e: &'static encoding_rs::Encoding, _bytes: &'a [u8]) -> Option<std::borrow::Cow<'a, str>> {
    if kani::any() {
        Some(std::borrow::Cow::Owned(String::new()))
    } else {
        None
    }
}
