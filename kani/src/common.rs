//! Shared harness support.
use std::io;

/// A sink whose `write_fmt` drops the arguments unformatted: the *arguments* of
/// every `write!` in a print routine are still evaluated (index expressions,
/// arithmetic), `Display`/`Debug` bodies are not.
pub struct NullSink;
impl io::Write for NullSink {
    fn write(&mut self, b: &[u8]) -> io::Result<usize> {
        Ok(b.len())
    }
    fn flush(&mut self) -> io::Result<()> {
        Ok(())
    }
    fn write_fmt(&mut self, _a: std::fmt::Arguments<'_>) -> io::Result<()> {
        Ok(())
    }
}

#[cfg(kani)]
pub fn any_endian() -> scroll::Endian {
    if kani::any() {
        scroll::Endian::Little
    } else {
        scroll::Endian::Big
    }
}

/// Stub for `alloc::fmt::format` (used with `#[kani::stub]`): message text is
/// never the subject of a claimed property.
pub fn stub_format(_args: std::fmt::Arguments<'_>) -> String {
    String::new()
}
