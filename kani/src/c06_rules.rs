//! C06 — STACK CFI rule tables: `parse_cfi_exprs` (record text -> REG: EXPR table) and
//! `walk_with_stack_cfi` (table -> caller registers), decided separately:
//! the parser on concrete record texts (its result is checked by the solver, the sub-slices it
//! computes from pointer differences are not constants for the symbolic executor, which is why the two
//! cannot be run back to back), the application logic with the parser replaced by an oracle.
use breakpad_symbols::verif::walker as hook;
use breakpad_symbols::walker::walk_with_stack_cfi;
use breakpad_symbols::{CfiRules, FrameWalker};

/// A `CfiRules` whose text buffer is the literal itself (never dropped): keeps the text a constant for the symbolic executor.
fn rec(address: u64, s: &'static str) -> std::mem::ManuallyDrop<CfiRules> {
    std::mem::ManuallyDrop::new(CfiRules { address, rules: unsafe { String::from_raw_parts(s.as_ptr() as *mut u8, s.len(), s.len()) } })
}

fn same(a: &str, b: &str) -> bool {
    if a.len() != b.len() {
        return false;
    }
    let (a, b) = (a.as_bytes(), b.as_bytes());
    let mut i = 0;
    while i < b.len() {
        if a[i] != b[i] {
            return false;
        }
        i += 1;
    }
    true
}

fn table_is(got: &Option<Vec<(u8, &str, &str)>>, want: &[(u8, &str, &str)]) -> bool {
    match got {
        None => false,
        Some(v) => {
            if v.len() != want.len() {
                return false;
            }
            let mut i = 0;
            while i < want.len() {
                if v[i].0 != want[i].0 || !same(v[i].1, want[i].1) || !same(v[i].2, want[i].2) {
                    return false;
                }
                i += 1;
            }
            true
        }
    }
}

/// F: breakpad_symbols::sym_file::walker::parse_cfi_exprs (through the parse_cfi_records forwarder: the records of one INIT + deltas go into one table, in order)
/// I: none (concrete record texts); the result table is compared by content
/// B: records of at most 45 bytes, at most 2 records, at most 4 table entries
/// A: rule table is the association-list stand-in for HashMap (hook), iteration order = first-insertion order
/// O: the documented `REG: EXPR` grammar: `.cfa` / `.ra` / `$reg` / `reg` labels, `$reg:` and `reg:` name the same register, an expression is the text from its first to its last token (inner white space kept), a later rule for a register replaces the earlier one within a record and across records, leading tokens before any label / a label without expression / an empty record are rejected
#[kani::proof]
#[kani::unwind(48)]
fn c06_q_rule_table_grammar() {
    let t = hook::parse_cfi_records(&[".cfa: $rsp 8 + .ra: .cfa 8 - ^"]);
    assert!(table_is(&t, &[(0, "", "$rsp 8 +"), (1, "", ".cfa 8 - ^")]));
    std::mem::forget(t);
    // `$rax:` and `rax:` are the same register; the later rule wins
    let t = hook::parse_cfi_records(&["$rax: 5 rax: 7"]);
    assert!(table_is(&t, &[(2, "rax", "7")]));
    std::mem::forget(t);
    let t = hook::parse_cfi_records(&["x29: 1 $x29: 2 3 +"]);
    assert!(table_is(&t, &[(2, "x29", "2 3 +")]));
    std::mem::forget(t);
    // white space: tabs, newlines, runs of blanks; inner white space of an expression is kept as written
    let t = hook::parse_cfi_records(&["  .cfa:  $rsp\t8 +\n.ra: 1 "]);
    assert!(table_is(&t, &[(0, "", "$rsp\t8 +"), (1, "", "1")]));
    std::mem::forget(t);
    // malformed records
    assert!(hook::parse_cfi_records(&[""]).is_none());
    assert!(hook::parse_cfi_records(&["8 .cfa: 1"]).is_none());
    assert!(hook::parse_cfi_records(&[".cfa:"]).is_none());
    assert!(hook::parse_cfi_records(&[".cfa: 1 .ra:"]).is_none());
    assert!(hook::parse_cfi_records(&[".cfa: .ra: 1"]).is_none());
}

/// F: parse_cfi_exprs over an INIT record and a delta record
/// I: none (concrete record texts)
/// B: 2 records
/// A: as above
/// O: a delta record's rule replaces the INIT record's rule for the same register (also `.cfa`), rules it does not mention survive, a malformed delta rejects the whole set
#[kani::proof]
#[kani::unwind(48)]
fn c06_q_rule_table_delta_override() {
    let t = hook::parse_cfi_records(&[".cfa: $rsp 8 + .ra: .cfa 8 - ^ $rbx: .cfa 16 - ^", "rbx: $rbx .cfa: $rsp 16 +"]);
    assert!(table_is(&t, &[(0, "", "$rsp 16 +"), (1, "", ".cfa 8 - ^"), (2, "rbx", "$rbx")]));
    std::mem::forget(t);
    assert!(hook::parse_cfi_records(&[".cfa: 1 .ra: 2", "3 $rbx: 4"]).is_none());
}

/// Reachability witness: a well-formed record yields a table.
#[kani::proof]
#[kani::unwind(48)]
fn c06_w_rule_table_reachable() {
    let t = hook::parse_cfi_records(&[".cfa: 1 .ra: 2"]);
    if t.is_some() {
        assert!(false);
    }
}

// ---------------------------------------------------------------- application of a rule table

/// Recording walker: callee registers rax/rbx, one memory cell; logs every caller-side effect in order.
pub struct RW {
    pub rax: Option<u64>,
    pub rbx: Option<u64>,
    pub a0: u64,
    pub v0: u64,
    /// (kind, register code, value): kind 1 = set_cfa, 2 = set_ra, 3 = set_caller_register, 4 = clear_caller_register
    pub log: [(u8, u8, u64); 6],
    pub n: usize,
}
fn reg_code(name: &str) -> u8 {
    match name {
        "rax" => 1,
        "rbx" => 2,
        "r12" => 3,
        _ => 0,
    }
}
impl RW {
    fn any() -> RW {
        RW { rax: kani::any(), rbx: kani::any(), a0: kani::any(), v0: kani::any(), log: [(0, 0, 0); 6], n: 0 }
    }
    fn note(&mut self, k: u8, r: u8, v: u64) {
        if self.n < 6 {
            self.log[self.n] = (k, r, v);
        }
        self.n += 1;
    }
    fn read(&self, a: u64) -> Option<u64> {
        if a == self.a0 {
            Some(self.v0)
        } else {
            None
        }
    }
}
impl FrameWalker for RW {
    fn get_instruction(&self) -> u64 {
        0
    }
    fn has_grand_callee(&self) -> bool {
        false
    }
    fn get_grand_callee_parameter_size(&self) -> u32 {
        0
    }
    fn get_register_at_address(&self, a: u64) -> Option<u64> {
        self.read(a)
    }
    fn get_callee_register(&self, name: &str) -> Option<u64> {
        match name {
            "rax" => self.rax,
            "rbx" => self.rbx,
            _ => None,
        }
    }
    fn set_caller_register(&mut self, name: &str, val: u64) -> Option<()> {
        self.note(3, reg_code(name), val);
        Some(())
    }
    fn clear_caller_register(&mut self, name: &str) {
        self.note(4, reg_code(name), 0);
    }
    fn set_cfa(&mut self, v: u64) -> Option<()> {
        self.note(1, 0, v);
        Some(())
    }
    fn set_ra(&mut self, v: u64) -> Option<()> {
        self.note(2, 0, v);
        Some(())
    }
}

/// Fill the oracle's table (hook statics) for one configuration. Call 0 = the INIT record "A", call 1 = the delta "B".
///   rbx_rule: 0 absent, 1 `.cfa 16 +` (succeeds), 2 `.undef` (fails)
///   r12_rule: 0 absent, 1 `$rax` (succeeds iff the callee has rax), 2 `$rcx` (a register the callee does not have)
fn install(have_cfa: bool, have_ra: bool, cfa_uses_cfa: bool, ra_deref: bool, rbx_rule: u8, r12_rule: u8) {
    unsafe {
        hook::CFI_ORACLE_CALLS = 0;
        hook::CFI_ORACLE_OK = [true; 4];
        hook::CFI_ORACLE_SEEN = [0; 4];
        let mut t: [Option<(u8, u8, &'static str, &'static str)>; 8] = [None; 8];
        if rbx_rule == 1 {
            t[0] = Some((0, 2, "rbx", ".cfa 16 +"));
        }
        if rbx_rule == 2 {
            t[0] = Some((0, 2, "rbx", ".undef"));
        }
        if have_ra {
            t[1] = Some((0, 1, "", if ra_deref { ".cfa 8 - ^" } else { ".cfa 8 -" }));
        }
        if have_cfa {
            t[2] = Some((0, 0, "", if cfa_uses_cfa { ".cfa 8 +" } else { "$rbx 8 +" }));
        }
        if r12_rule == 1 {
            t[3] = Some((0, 2, "r12", "$rax"));
        }
        if r12_rule == 2 {
            t[3] = Some((0, 2, "r12", "$rcx"));
        }
        // the delta record re-defines rbx
        t[4] = Some((1, 2, "rbx", ".cfa 32 +"));
        hook::CFI_ORACLE_RULES = t;
    }
}

#[allow(clippy::too_many_arguments)]
fn run_cfg(have_cfa: bool, have_ra: bool, cfa_uses_cfa: bool, ra_deref: bool, rbx_rule: u8, r12_rule: u8, delta: bool, init_text: &'static str) {
    install(have_cfa, have_ra, cfa_uses_cfa, ra_deref, rbx_rule, r12_rule);
    let mut w = RW::any();
    // `init_text` / DELTA_TEXT spell out the same rule table: the stubbed parser ignores them (it only notes their
    // first byte), the real parser - which is what runs when a counterexample is replayed natively - reads them
    let init = rec(0, init_text);
    let add = [rec(1, DELTA_TEXT)];
    let add: &[CfiRules] = unsafe { std::slice::from_raw_parts(add.as_ptr() as *const CfiRules, 1) };
    let r = walk_with_stack_cfi(&init, if delta { add } else { &add[..0] }, &mut w);
    // the records are parsed in order: INIT first, then the deltas
    let (seen, nseen) = unsafe { (hook::CFI_ORACLE_SEEN, hook::CFI_ORACLE_CALLS) };
    if nseen != 0 {
        assert!(nseen == if delta { 2 } else { 1 } && seen[0] == init_text.as_bytes()[0] && (!delta || seen[1] == b' '));
    }
    // reference: .cfa and .ra are mandatory; the CFA rule cannot use .cfa; the RA rule can
    let cfa = if have_cfa && have_ra && !cfa_uses_cfa { w.rbx.map(|b| b.wrapping_add(8)) } else { None };
    let ra = match cfa {
        Some(c) => {
            let addr = c.wrapping_sub(8);
            if ra_deref {
                w.read(addr)
            } else {
                Some(addr)
            }
        }
        None => None,
    };
    match (cfa, ra) {
        (Some(c), Some(a)) => {
            assert!(r.is_some());
            // frame address and return address first, then the other registers in table order
            assert!(w.n >= 2 && w.log[0] == (1, 0, c) && w.log[1] == (2, 0, a));
            let mut k = 2;
            if delta {
                // the delta's rule replaced (or added) the rbx rule
                if rbx_rule != 0 {
                    assert!(w.log[k] == (3, 2, c.wrapping_add(32)));
                    k += 1;
                }
            } else {
                if rbx_rule == 1 {
                    assert!(w.log[k] == (3, 2, c.wrapping_add(16)));
                    k += 1;
                }
                // a rule that fails to evaluate marks the register unknown in the caller
                if rbx_rule == 2 {
                    assert!(w.log[k] == (4, 2, 0));
                    k += 1;
                }
            }
            if r12_rule == 1 {
                match w.rax {
                    Some(v) => assert!(w.log[k] == (3, 3, v)),
                    None => assert!(w.log[k] == (4, 3, 0)),
                }
                k += 1;
            }
            if r12_rule == 2 {
                assert!(w.log[k] == (4, 3, 0));
                k += 1;
            }
            if delta && rbx_rule == 0 {
                assert!(w.log[k] == (3, 2, c.wrapping_add(32)));
                k += 1;
            }
            assert!(w.n == k);
        }
        _ => {
            // no frame address or no return address: the walk fails and the caller is left untouched
            assert!(r.is_none());
            assert!(w.n == 0);
        }
    }
}

const DELTA_TEXT: &str = " rbx: .cfa 32 +";

macro_rules! rule_application {
    ($name:ident, $( ($a:expr, $b:expr, $c:expr, $d:expr, $e:expr, $f:expr, $g:expr, $t:expr) ),+) => {
        /// F: breakpad_symbols::walker::walk_with_stack_cfi (+ eval_cfi_expr on the table's expressions)
        /// I: callee rax/rbx (each a u64 or unknown), one readable memory cell at a symbolic address; the rule table is fixed per configuration: .cfa / .ra present or not, CFA rule `$rbx 8 +` or the ill-formed `.cfa 8 +`, RA rule `.cfa 8 -` or `.cfa 8 - ^`, an rbx rule that succeeds / fails / is absent, an r12 rule `$rax` / `$rcx` / absent, with or without a delta record re-defining rbx
        /// B: one INIT record and at most one delta record, at most 4 rules
        /// A: parse_cfi_exprs replaced by a table-driven oracle (hook) that inserts the configuration's rules (the parser is decided by c06_q_rule_table_*); the rule table is the association-list stand-in for HashMap
        /// O: records are parsed INIT first, deltas in order; `.cfa` and `.ra` are mandatory; the CFA rule is evaluated without a CFA, every other rule with it; set_cfa then set_ra, then every other register in table order: its value if the rule evaluates, clear_caller_register if it does not; if the CFA or RA cannot be computed the walk fails and nothing was stored; a delta's rule replaces the INIT rule
        /// TAGS: STUB
        #[kani::proof]
        #[kani::unwind(18)]
        #[kani::stub(breakpad_symbols::sym_file::walker::parse_cfi_exprs, breakpad_symbols::sym_file::walker::verif::oracle_parse_cfi_exprs)]
        fn $name() {
            $( run_cfg($a, $b, $c, $d, $e, $f, $g, $t); )+
        }
    };
}
rule_application!(c06_q_rule_application_mandatory,
    (true, false, false, false, 1, 0, false, "rbx: .cfa 16 + .cfa: $rbx 8 +"),
    (false, true, false, false, 1, 1, false, "rbx: .cfa 16 + .ra: .cfa 8 - r12: $rax"),
    (true, true, true, false, 1, 2, false, "rbx: .cfa 16 + .ra: .cfa 8 - .cfa: .cfa 8 + r12: $rcx"),
    (false, false, false, false, 1, 0, true, "rbx: .cfa 16 +")
);
rule_application!(c06_q_rule_application_registers,
    (true, true, false, false, 1, 1, false, "rbx: .cfa 16 + .ra: .cfa 8 - .cfa: $rbx 8 + r12: $rax"),
    (true, true, false, true, 2, 2, false, "rbx: .undef .ra: .cfa 8 - ^ .cfa: $rbx 8 + r12: $rcx")
);
rule_application!(c06_q_rule_application_delta,
    (true, true, false, false, 2, 0, true, "rbx: .undef .ra: .cfa 8 - .cfa: $rbx 8 +"),
    (true, true, false, true, 0, 1, true, ".ra: .cfa 8 - ^ .cfa: $rbx 8 + r12: $rax")
);

/// Reachability witness: the success path of walk_with_stack_cfi is reachable under the oracle.
#[kani::proof]
#[kani::unwind(18)]
#[kani::stub(breakpad_symbols::sym_file::walker::parse_cfi_exprs, breakpad_symbols::sym_file::walker::verif::oracle_parse_cfi_exprs)]
fn c06_w_rule_application_reachable() {
    install(true, true, false, false, 0, 0);
    let mut w = RW::any();
    let init = rec(0, ".ra: .cfa 8 - .cfa: $rbx 8 +");
    let r = walk_with_stack_cfi(&init, &[], &mut w);
    if r.is_some() {
        assert!(false);
    }
}

#[path = "../playback/c06_rules.rs"]
mod playback;
