//! C01 — reading a minidump is total: fixed-layout streams, handle data, context printing,
//! and the allocation clause (no `Vec::with_capacity` sized from a count the stream cannot back).
use crate::common::{any_endian, stub_format, stub_utf16_decode, NullSink};
use minidump::format as md;
use minidump::verif as hook;
use minidump::system_info::Cpu;
use minidump::{Endian, MinidumpContext, MinidumpMemory, MinidumpRawContext, MinidumpStream, MinidumpSystemInfo};

// ---------------------------------------------------------------- allocation clause
pub static mut CAP_LIMIT: usize = 0;
pub static mut CAP_MAX_SEEN: usize = 0;
pub struct CapRecorder<T>(std::marker::PhantomData<T>);
impl<T> CapRecorder<T> {
    /// Stand-in for `Vec::with_capacity`: records the largest capacity requested.
    pub fn with_capacity(n: usize) -> Vec<T> {
        unsafe {
            if n > CAP_MAX_SEEN {
                CAP_MAX_SEEN = n;
            }
        }
        Vec::new()
    }
}

/// F: MinidumpHandleDataStream::read (header arithmetic, ensure_count_in_bound, the Vec::with_capacity argument)
/// I: the 16 header bytes symbolic (size_of_header, size_of_descriptor, number_of_descriptors: full u32), stream length 12..=16, byte order
/// B: streams that hold a header and no descriptor
/// A: Vec::with_capacity replaced by a recorder of the requested element count
/// O: no panic; every requested capacity (in elements) is at most the stream length in bytes, i.e. it is backed by the stream
#[kani::proof]
#[kani::unwind(3)]
#[kani::stub(alloc::fmt::format, stub_format)]
#[kani::stub(std::vec::Vec::with_capacity, CapRecorder::with_capacity)]
#[kani::stub(encoding_rs::Encoding::decode_without_bom_handling_and_without_replacement, stub_utf16_decode)]
fn c01_q_handle_header_capacity() {
    let bytes: [u8; 16] = kani::any();
    let len: usize = kani::any();
    kani::assume(len >= 12 && len <= 16);
    let r = minidump::MinidumpHandleDataStream::read(&bytes[..len], &bytes[..len], any_endian(), None);
    let seen = unsafe { CAP_MAX_SEEN };
    kani::cover!(r.is_ok(), "an empty handle stream is accepted");
    assert!(seen <= len);
    std::mem::forget(r);
}

/// F: MinidumpHandleDataStream::read with size_of_descriptor == 0 (the header value for which ensure_count_in_bound accepts any count)
/// I: size_of_header, number_of_descriptors, reserved: full u32; size_of_descriptor fixed to 0; stream length 16; byte order
/// B: one header, the boundary value of the descriptor size
/// A: Vec::with_capacity replaced by a recorder of the requested element count
/// O: no panic (no division by the descriptor size, no unbounded reservation): requested capacity <= stream length
#[kani::proof]
#[kani::unwind(3)]
#[kani::stub(alloc::fmt::format, stub_format)]
#[kani::stub(std::vec::Vec::with_capacity, CapRecorder::with_capacity)]
#[kani::stub(encoding_rs::Encoding::decode_without_bom_handling_and_without_replacement, stub_utf16_decode)]
fn c01_q_handle_zero_descriptor_size() {
    let mut bytes: [u8; 16] = kani::any();
    bytes[4] = 0;
    bytes[5] = 0;
    bytes[6] = 0;
    bytes[7] = 0;
    let r = minidump::MinidumpHandleDataStream::read(&bytes[..], &bytes[..], any_endian(), None);
    let seen = unsafe { CAP_MAX_SEEN };
    assert!(seen <= 16);
    std::mem::forget(r);
}

/// F: read_stream_list::<MINIDUMP_MEMORY_DESCRIPTOR> allocation argument on every path (incl. paths that later fail)
/// I: 12 stream bytes symbolic, stream length 0..=12, byte order
/// B: streams <= 12 bytes (header only; no element fits)
/// A: Vec::with_capacity replaced by a recorder
/// O: requested capacity * element size <= stream length
#[kani::proof]
#[kani::unwind(3)]
#[kani::stub(alloc::fmt::format, stub_format)]
#[kani::stub(std::vec::Vec::with_capacity, CapRecorder::with_capacity)]
fn c01_q_list_header_capacity() {
    let bytes: [u8; 12] = kani::any();
    let len: usize = kani::any();
    kani::assume(len <= 12);
    let mut off = 0usize;
    let r = hook::read_stream_list::<md::MINIDUMP_MEMORY_DESCRIPTOR>(&mut off, &bytes[..len], any_endian());
    let seen = unsafe { CAP_MAX_SEEN };
    assert!(seen * 16 <= len);
    std::mem::forget(r);
}

/// F: read_ex_stream_list::<MINIDUMP_UNLOADED_MODULE> allocation argument on every path
/// I: 20 stream bytes symbolic, stream length 0..=20, byte order
/// B: streams <= 20 bytes (header only; no element fits)
/// A: Vec::with_capacity replaced by a recorder
/// O: requested capacity * element size <= stream length
#[kani::proof]
#[kani::unwind(3)]
#[kani::stub(alloc::fmt::format, stub_format)]
#[kani::stub(std::vec::Vec::with_capacity, CapRecorder::with_capacity)]
fn c01_q_ex_list_header_capacity() {
    let bytes: [u8; 20] = kani::any();
    let len: usize = kani::any();
    kani::assume(len <= 20);
    let mut off = 0usize;
    let r = hook::read_ex_stream_list::<md::MINIDUMP_UNLOADED_MODULE>(&mut off, &bytes[..len], any_endian());
    let seen = unsafe { CAP_MAX_SEEN };
    assert!(seen * 24 <= len);
    std::mem::forget(r);
}

// ---------------------------------------------------------------- handle data
/// F: MinidumpHandleDescriptor::read_object_info
/// I: offset (full usize), 24 file bytes symbolic, byte order
/// B: files <= 24 bytes
/// O: never panics (in particular on an info_type outside the known enumeration); Some(i) => i.raw is the record at that offset
#[kani::proof]
#[kani::unwind(6)]
fn c01_q_handle_object_info() {
    let all: [u8; 24] = kani::any();
    let off: usize = kani::any();
    let r = hook::handle_read_object_info(off, &all, 40, any_endian());
    kani::cover!(r.is_some(), "an object information record was read");
    if let Some(i) = r {
        assert!(off != 0 && off <= 12);
        assert!((i.raw.info_type as u64) < 10);
    }
}

/// TAGS: TERM
/// F: <MinidumpHandleDescriptor as TryFromCtx>::try_from_ctx for MINIDUMP_HANDLE_DESCRIPTOR_2: the object-information chain walk
/// I: 40 descriptor bytes and 48 file bytes symbolic, byte order
/// B: file of 48 bytes (at most 4 distinct object-information records); unwind 7: a failed unwinding assertion is the non-termination witness
/// A: type_name_rva = object_name_rva = 0 (name decoding is checked by the string harnesses)
/// O: the walk terminates and yields at most len/12 records; never panics
#[kani::proof]
#[kani::unwind(7)]
fn c01_q_handle_chain_terminates() {
    let all: [u8; 48] = kani::any();
    let mut src: [u8; 40] = kani::any();
    src[8] = 0;
    src[9] = 0;
    src[10] = 0;
    src[11] = 0;
    src[12] = 0;
    src[13] = 0;
    src[14] = 0;
    src[15] = 0;
    let r = hook::handle_descriptor_read(&src, &all, 40, any_endian());
    kani::cover!(r.as_ref().map_or(false, |d| d.0.object_infos.len() >= 2), "a chain of two records was followed");
    if let Ok((d, n)) = r {
        assert!(n == 40);
        assert!(d.object_infos.len() <= 4);
        std::mem::forget(d);
    }
}

// ---------------------------------------------------------------- context printing
macro_rules! print_one {
    ($t:ty, $variant:ident) => {{
        let raw: [u8; std::mem::size_of::<$t>()] = kani::any();
        let c: $t = unsafe { std::mem::transmute(raw) };
        let ctx = MinidumpContext::from_raw(MinidumpRawContext::$variant(c));
        let r = ctx.print(&mut NullSink);
        assert!(r.is_ok());
        let _ = ctx.get_instruction_pointer();
        let _ = ctx.get_stack_pointer();
        std::mem::forget(ctx);
    }};
}

/// F: MinidumpContext::print (arguments of every write!, the byte-dump loops), get_instruction_pointer, get_stack_pointer for CONTEXT_X86
/// I: an x86 context with every byte symbolic (716 bytes)
/// B: one context; unwind 520 covers the 512-byte extended-register dump
/// O: printing never panics (no unimplemented!/index/overflow), the dedicated accessors never panic
#[kani::proof]
#[kani::unwind(520)]
fn c01_q_context_print_x86() {
    print_one!(md::CONTEXT_X86, X86);
}

/// F: MinidumpContext::print, get_instruction_pointer, get_stack_pointer for CONTEXT_AMD64, CONTEXT_ARM, CONTEXT_ARM64, CONTEXT_ARM64_OLD
/// I: one context of each type with every byte symbolic
/// B: one context each
/// O: printing never panics, the dedicated accessors never panic
#[kani::proof]
#[kani::unwind(520)]
fn c01_q_context_print_amd64_arm_arm64() {
    print_one!(md::CONTEXT_AMD64, Amd64);
    print_one!(md::CONTEXT_ARM, Arm);
    print_one!(md::CONTEXT_ARM64, Arm64);
    print_one!(md::CONTEXT_ARM64_OLD, OldArm64);
}

/// F: MinidumpContext::print, get_instruction_pointer, get_stack_pointer for CONTEXT_PPC, CONTEXT_PPC64, CONTEXT_SPARC, CONTEXT_MIPS
/// I: one context of each type with every byte symbolic
/// B: one context each
/// O: printing never panics (these are the types whose print used to hit unimplemented!()), the dedicated accessors never panic
#[kani::proof]
#[kani::unwind(520)]
fn c01_q_context_print_ppc_sparc_mips() {
    print_one!(md::CONTEXT_PPC, Ppc);
    print_one!(md::CONTEXT_PPC64, Ppc64);
    print_one!(md::CONTEXT_SPARC, Sparc);
    print_one!(md::CONTEXT_MIPS, Mips);
}

// ---------------------------------------------------------------- small fixed-layout streams
/// F: MinidumpBreakpadInfo::read + print, MinidumpMemory::read (+ memory_range, get_memory_at_address)
/// I: 12 stream bytes (length 0..=12), a memory descriptor with all fields symbolic over a 16-byte file, query address; byte order
/// B: one record each; file <= 16 bytes
/// O: never panics; a memory region that is returned lies inside the file and reads stay inside it
#[kani::proof]
#[kani::unwind(18)]
fn c01_q_breakpad_info_and_memory_read() {
    let e = any_endian();
    let b: [u8; 12] = kani::any();
    let len: usize = kani::any();
    kani::assume(len <= 12);
    if let Ok(i) = minidump::MinidumpBreakpadInfo::read(&b[..len], &b[..len], e, None) {
        assert!(len == 12);
        let _ = i.print(&mut NullSink);
    }
    let file: [u8; 16] = kani::any();
    let desc = md::MINIDUMP_MEMORY_DESCRIPTOR {
        start_of_memory_range: kani::any(),
        memory: md::MINIDUMP_LOCATION_DESCRIPTOR { data_size: kani::any(), rva: kani::any() },
    };
    if let Ok(m) = minidump::MinidumpMemory::read(&desc, &file, e) {
        assert!(desc.memory.rva as usize + desc.memory.data_size as usize <= 16);
        assert!(m.bytes.len() == desc.memory.data_size as usize && m.size == m.bytes.len() as u64);
        let a: u64 = kani::any();
        let w: Option<u32> = m.get_memory_at_address(a);
        if w.is_some() {
            assert!(a >= m.base_address && a - m.base_address + 4 <= m.size);
        }
        let r = m.memory_range();
        if let Some(r) = r {
            assert!(r.start == m.base_address && r.end - r.start == m.size - 1);
        }
        kani::cover!(w.is_some(), "a word was read from the region");
    }
}

/// F: MinidumpMiscInfo::read (size-variant selection), process_create_time
/// I: stream bytes symbolic; stream length fixed per block: 23, 24, 43, 44 (just below / at the first two variants' sizes)
/// B: streams of 23-44 bytes (a symbolic length up to 48 does not finish; the larger variants 232/832/1364 are not decided)
/// O: never panics; Ok iff the stream holds at least the 24-byte base struct; the variant chosen is the largest that fits
#[kani::proof]
#[kani::unwind(20)]
#[kani::stub(alloc::fmt::format, stub_format)]
fn c01_q_misc_info_read() {
    let b: [u8; 44] = kani::any();
    let e = any_endian();
    let r23 = minidump::MinidumpMiscInfo::read(&b[..23], &b[..23], e, None);
    assert!(r23.is_err());
    std::mem::forget(r23);
    let r24 = minidump::MinidumpMiscInfo::read(&b[..24], &b[..24], e, None);
    assert!(matches!(r24.as_ref().map(|m| &m.raw), Ok(minidump::RawMiscInfo::MiscInfo(_))));
    if let Ok(m) = &r24 {
        let _ = m.process_create_time();
    }
    std::mem::forget(r24);
    let r43 = minidump::MinidumpMiscInfo::read(&b[..43], &b[..43], e, None);
    assert!(matches!(r43.as_ref().map(|m| &m.raw), Ok(minidump::RawMiscInfo::MiscInfo(_))));
    std::mem::forget(r43);
    let r44 = minidump::MinidumpMiscInfo::read(&b, &b, e, None);
    assert!(matches!(r44.as_ref().map(|m| &m.raw), Ok(minidump::RawMiscInfo::MiscInfo2(_))));
    std::mem::forget(r44);
}

fn thread_print(cpu: Option<Cpu>) {
    let e = any_endian();
    let mut raw: md::MINIDUMP_THREAD = unsafe { std::mem::zeroed() };
    raw.thread_id = kani::any();
    raw.suspend_count = kani::any();
    raw.teb = kani::any();
    raw.stack.start_of_memory_range = kani::any();
    raw.stack.memory.data_size = kani::any();
    let bytes: [u8; 20] = kani::any();
    let len: usize = kani::any();
    kani::assume(len <= 20);
    let stack = MinidumpMemory { desc: Default::default(), base_address: kani::any(), size: len as u64, bytes: &bytes[..len], endian: e };
    let t = minidump::verif::thread_from_parts(raw, None, Some(stack), e);
    let mut si: MinidumpSystemInfo = unsafe { std::mem::zeroed() };
    let r = match cpu {
        Some(c) => {
            si.cpu = c;
            t.print(&mut NullSink, None, Some(&si), None, false)
        }
        None => t.print(&mut NullSink, None, None, None, false),
    };
    assert!(r.is_ok());
    kani::cover!(len % 8 != 0 && len > 8, "a stack whose length is not a multiple of the word size");
    std::mem::forget(si);
    std::mem::forget(t);
}

// ---------------------------------------------------------------- thread print (stack dump)
/// F: MinidumpThread::print (non-brief: header fields, missing context, stack_memory, the word-by-word stack dump), built through the thread_from_parts hook
/// I: thread header fields, a stack of 0..=20 symbolic bytes at a symbolic address, byte order; pointer width 32 (x86), 64 (amd64) and unknown (no system info)
/// B: stacks of at most 20 bytes; no context bytes (context printing has its own harnesses)
/// A: NullSink (format arguments are evaluated, text is not produced); all-zero MinidumpSystemInfo with the cpu field set
/// O: never panics for any stack length (a stack that is not a whole number of words included); returns Ok
#[kani::proof]
#[kani::unwind(8)]
fn c01_q_thread_print_stack_dump() {
    thread_print(Some(Cpu::X86));
    thread_print(Some(Cpu::X86_64));
    thread_print(None);
}

#[path = "../playback/c01_streams.rs"]
mod playback;
