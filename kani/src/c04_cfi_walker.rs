//! C04 / C06 / C07 — the real `CfiStackWalker` (the FrameWalker the symbol-file evaluators drive),
//! reached through the `with_cfi_walker` forwarder: one callback at a time on symbolic state.
use super::c04_frame_pointer::ref_read;
use minidump::format::{CONTEXT_AMD64, CONTEXT_X86};
use minidump::verif_set::VecSet;
use minidump::*;
use minidump_unwind::verif as hook;

fn x86_ctx() -> CONTEXT_X86 {
    let mut c = CONTEXT_X86::default();
    c.eip = kani::any();
    c.esp = kani::any();
    c.ebp = kani::any();
    c.ebx = kani::any();
    c.esi = kani::any();
    c.edi = kani::any();
    c.eax = kani::any();
    c
}

fn set_of(names: &[&'static str]) -> VecSet<&'static str> {
    let mut s = VecSet::new();
    let mut i = 0;
    while i < names.len() {
        s.insert(names[i]);
        i += 1;
    }
    s
}

/// F: <CfiStackWalker<CONTEXT_X86> as FrameWalker>::{set_caller_register, set_cfa, set_ra} (register width conversion, validity bookkeeping, memoize_register)
/// I: callee x86 registers, the written value (any value that fits in 32 bits; the too-wide case is its own harness); register name fixed per call (eax: not forwarded)
/// B: one callback per walker; forwarded set = {ebp, ebx, esi, edi}
/// O: a value that does not fit the 32-bit register is refused and leaves the caller context AND the caller validity set unchanged; a fitting value is stored and its canonical name becomes valid; unknown names are refused; set_cfa/set_ra write esp/eip
#[kani::proof]
#[kani::unwind(12)]
fn c04_q_cfi_walker_x86_set_register_fits() {
    cfi_walker_x86_set_register_width(true, false);
}

/// F: as c04_q_cfi_walker_x86_set_register_fits, for values that do not fit in 32 bits
/// I: callee x86 registers, the written value in (2^32-1, 2^64)
/// B: one callback per walker
/// O: the value is refused and leaves the caller context AND the caller validity set unchanged
#[kani::proof]
#[kani::unwind(12)]
fn c04_q_cfi_walker_x86_set_register_too_wide() {
    cfi_walker_x86_set_register_width(false, false);
}

/// F: <CfiStackWalker<CONTEXT_X86> as FrameWalker>::{set_caller_register, set_cfa, set_ra} — the callbacks every STACK CFI rule result goes through (same body as the c04 harness; registered under C06 because "each other register is set from its rule or marked unknown when its rule fails" ends here)
/// I: callee x86 registers, a rule result in (2^32-1, 2^64)
/// B: one callback per walker
/// O: a rule result that does not fit the 32-bit register leaves the register unknown (validity set untouched) and unchanged
#[kani::proof]
#[kani::unwind(12)]
fn c06_q_cfi_walker_x86_rule_result_too_wide() {
    cfi_walker_x86_set_register_width(false, false);
}

fn cfi_walker_x86_part_b(ctx: &CONTEXT_X86, valid: &MinidumpContextValidity, mem: &MinidumpMemory<'_>, module: &MinidumpModule, v: u64, fits: bool) {
    // set_cfa alone
    let mut r = None;
    let (c2, s2) = hook::with_cfi_walker(ctx, valid, VecSet::new(), UnifiedMemory::Memory(mem), module, 0x40001000, false, 0, |w| {
        r = Some(w.set_cfa(v));
    });
    assert!(r == Some(if fits { Some(()) } else { None }));
    assert!(s2.len() == if fits { 1 } else { 0 });
    if fits {
        assert!(s2.contains("esp"));
    }
    assert!(c2.esp == if fits { v as u32 } else { ctx.esp });
    assert!(c2.eip == ctx.eip);
}

fn cfi_walker_x86_part_c(ctx: &CONTEXT_X86, valid: &MinidumpContextValidity, mem: &MinidumpMemory<'_>, module: &MinidumpModule, v: u64, fits: bool) {
    // set_ra, and a name the context does not know
    let mut r = (None, None);
    let (c2, s2) = hook::with_cfi_walker(ctx, valid, VecSet::new(), UnifiedMemory::Memory(mem), module, 0x40001000, false, 0, |w| {
        r = (Some(w.set_ra(v)), Some(w.set_caller_register("rax", v)));
    });
    assert!(r.0 == Some(if fits { Some(()) } else { None }));
    assert!(r.1 == Some(None));
    assert!(s2.len() == if fits { 1 } else { 0 });
    if fits {
        assert!(s2.contains("eip"));
    }
    assert!(c2.eip == if fits { v as u32 } else { ctx.eip });
    assert!(c2.esp == ctx.esp);
}

fn cfi_walker_x86_set_register_width(fits: bool, part_b: bool) {
    let ctx = x86_ctx();
    let valid = MinidumpContextValidity::All;
    let bytes = [0u8; 8];
    let mem = MinidumpMemory { desc: Default::default(), base_address: 0x1000, size: 8, bytes: &bytes, endian: Endian::Little };
    let module = MinidumpModule::new(0x40000000, 0x10000, "m");
    let v: u64 = kani::any();
    // whether the value fits is fixed per harness so that the validity set has a concrete size
    kani::assume((v <= u32::MAX as u64) == fits);
    if part_b {
        if kani::any() {
            cfi_walker_x86_part_b(&ctx, &valid, &mem, &module, v, fits);
        } else {
            cfi_walker_x86_part_c(&ctx, &valid, &mem, &module, v, fits);
        }
        std::mem::forget(module);
        return;
    }
    // a register that is NOT among the forwarded callee-saved ones
    let mut ret = None;
    let (c, s) = hook::with_cfi_walker(&ctx, &valid, set_of(&["ebp", "ebx", "esi", "edi"]), UnifiedMemory::Memory(&mem), &module, 0x40001000, false, 0, |w| {
        ret = Some(w.set_caller_register("eax", v));
    });
    assert!(ret == Some(if fits { Some(()) } else { None }));
    if fits {
        assert!(s.contains("eax"));
    }
    assert!(c.eax == if fits { v as u32 } else { ctx.eax });
    assert!(s.len() == if fits { 5 } else { 4 });
    assert!(c.ebx == ctx.ebx && c.esp == ctx.esp && c.eip == ctx.eip);
    std::mem::forget(module);
}

/// F: <CfiStackWalker<CONTEXT_X86> as FrameWalker>::{set_cfa, set_ra, set_caller_register with an unknown name}
/// I: callee x86 registers, the written value (fits in 32 bits)
/// B: one walker, three callbacks
/// O: set_cfa / set_ra store the value in esp / eip and make exactly those valid; a name the context does not know is refused
#[kani::proof]
#[kani::unwind(12)]
fn c04_q_cfi_walker_x86_cfa_ra_fits() {
    cfi_walker_x86_set_register_width(true, true);
}

/// F: as c04_q_cfi_walker_x86_cfa_ra_fits for values that do not fit in 32 bits
/// I: callee x86 registers, the written value in (2^32-1, 2^64)
/// B: one walker, three callbacks
/// O: all three callbacks refuse; context and validity untouched
#[kani::proof]
#[kani::unwind(12)]
fn c04_q_cfi_walker_x86_cfa_ra_too_wide() {
    cfi_walker_x86_set_register_width(false, true);
}

/// F: <CfiStackWalker<CONTEXT_X86> as FrameWalker>::{get_callee_register, clear_caller_register, get_register_at_address, has_grand_callee, get_grand_callee_parameter_size, get_instruction}, x86::callee_forwarded_regs
/// I: callee x86 registers, 8 stack bytes at a symbolic base, byte order, probe address, grand-callee flag and parameter size, instruction
/// B: one walker; callee validity {esp, ebp, ebx}
/// O: callee registers are visible iff valid in the callee; forwarded = callee-saved registers that are valid in the callee; clearing removes exactly that register; memory reads are 32-bit words of the stack region in the dump's byte order; the scalar getters return what the walker was built with
#[kani::proof]
#[kani::unwind(12)]
fn c04_q_cfi_walker_x86_getters_and_clear() {
    cfi_walker_x86_getters_and_clear();
}

/// F: <CfiStackWalker<CONTEXT_X86> as FrameWalker>::{get_callee_register, get_register_at_address, clear_caller_register} — what `$reg`, bare `reg` and `^` in a STACK CFI rule read and what a failed rule clears (same body as c04_q_cfi_walker_x86_getters_and_clear, registered under C06)
/// I: callee x86 registers, 8 stack bytes at a symbolic base, byte order, probe address
/// B: one walker; callee validity {esp, ebp, ebx}
/// O: a register that is unknown in the callee reads as unknown (so the rule using it fails) however stale its stored value; memory reads are words of the stack region in the dump's byte order; clearing removes exactly the named register
#[kani::proof]
#[kani::unwind(12)]
fn c06_q_cfi_walker_callee_register_validity() {
    cfi_walker_x86_getters_and_clear();
}

fn cfi_walker_x86_getters_and_clear() {
    let ctx = x86_ctx();
    let valid = MinidumpContextValidity::Some(set_of(&["esp", "ebp", "ebx"]));
    let fwd = hook::x86_forwarded(&valid);
    assert!(fwd.len() == 2 && fwd.contains("ebp") && fwd.contains("ebx"));
    let fwd_all = hook::x86_forwarded(&MinidumpContextValidity::All);
    assert!(fwd_all.len() == 4 && fwd_all.contains("ebp") && fwd_all.contains("ebx") && fwd_all.contains("esi") && fwd_all.contains("edi"));
    let bytes: [u8; 8] = kani::any();
    let base: u64 = kani::any();
    let e = crate::common::any_endian();
    let mem = MinidumpMemory { desc: Default::default(), base_address: base, size: 8, bytes: &bytes, endian: e };
    let module = MinidumpModule::new(0x40000000, 0x10000, "m");
    let a: u64 = kani::any();
    let gc: bool = kani::any();
    let gcps: u32 = kani::any();
    let ins: u64 = kani::any();
    let mut got = (None, None, None, None, false, 0u32, 0u64);
    let (c, s) = hook::with_cfi_walker(&ctx, &valid, fwd, UnifiedMemory::Memory(&mem), &module, ins, gc, gcps, |w| {
        got = (w.get_callee_register("ebp"), w.get_callee_register("esi"), w.get_callee_register("nope"), w.get_register_at_address(a), w.has_grand_callee(), w.get_grand_callee_parameter_size(), w.get_instruction());
        w.clear_caller_register("ebx");
    });
    assert!(got.0 == Some(ctx.ebp as u64));
    assert!(got.1.is_none() && got.2.is_none());
    assert!(got.3 == ref_read(&bytes, base, a, 4, e));
    assert!(got.4 == gc && got.5 == gcps && got.6 == ins);
    assert!(s.len() == 1 && s.contains("ebp") && !s.contains("ebx"));
    assert!(c.ebx == ctx.ebx);
    kani::cover!(got.3.is_some(), "a stack word was read");
    std::mem::forget(module);
}

/// F: breakpad_symbols::sym_file::walker::clear_stack_win_caller_registers driven into the real CfiStackWalker<CONTEXT_X86>
/// I: none (names are constants); callee validity All, forwarded set = the four callee-saved registers
/// B: one call
/// O: STACK WIN wants no implicit forwarding: after the call none of eip/esp/ebp/ebx/esi/edi is valid in the caller
#[kani::proof]
#[kani::unwind(12)]
fn c07_q_stack_win_clears_forwarded_registers() {
    let ctx = x86_ctx();
    let valid = MinidumpContextValidity::All;
    let bytes = [0u8; 8];
    let mem = MinidumpMemory { desc: Default::default(), base_address: 0x1000, size: 8, bytes: &bytes, endian: Endian::Little };
    let module = MinidumpModule::new(0x40000000, 0x10000, "m");
    let fwd = hook::x86_forwarded(&valid);
    let (_c, s) = hook::with_cfi_walker(&ctx, &valid, fwd, UnifiedMemory::Memory(&mem), &module, 0x40001000, false, 0, |w| {
        breakpad_symbols::verif::walker::clear_stack_win_caller_registers(w);
    });
    assert!(s.len() == 0);
    std::mem::forget(module);
}

/// F: <CfiStackWalker<CONTEXT_AMD64> as FrameWalker>::{set_caller_register, clear_caller_register, get_callee_register}, amd64::callee_forwarded_regs
/// I: callee amd64 registers (rbx, rbp, r12, rsp, rip, rax), written value (u64)
/// B: one walker; callee validity All
/// O: every u64 value fits; set makes the canonical name valid and stores the value; forwarded = {rbx, rbp, r12..r15}; clear removes exactly the named register
#[kani::proof]
#[kani::unwind(20)]
fn c04_q_cfi_walker_amd64_set_clear() {
    let mut ctx = CONTEXT_AMD64::default();
    ctx.rbx = kani::any();
    ctx.rbp = kani::any();
    ctx.r12 = kani::any();
    ctx.rsp = kani::any();
    ctx.rip = kani::any();
    ctx.rax = kani::any();
    let valid = MinidumpContextValidity::All;
    let fwd = hook::amd64_forwarded(&valid);
    assert!(fwd.len() == 6 && fwd.contains("rbx") && fwd.contains("rbp") && fwd.contains("r12") && fwd.contains("r13") && fwd.contains("r14") && fwd.contains("r15"));
    let bytes = [0u8; 8];
    let mem = MinidumpMemory { desc: Default::default(), base_address: 0x1000, size: 8, bytes: &bytes, endian: Endian::Little };
    let module = MinidumpModule::new(0x40000000, 0x10000, "m");
    let v: u64 = kani::any();
    let mut ret = (None, None);
    let (c, s) = hook::with_cfi_walker(&ctx, &valid, fwd, UnifiedMemory::Memory(&mem), &module, 0x40001000, false, 0, |w| {
        ret = (Some(w.set_caller_register("rax", v)), w.get_callee_register("r12"));
        w.clear_caller_register("rbx");
    });
    assert!(ret.0 == Some(Some(())) && ret.1 == Some(ctx.r12));
    assert!(c.rax == v && c.rbx == ctx.rbx && c.rbp == ctx.rbp);
    assert!(s.len() == 6 && s.contains("rax") && !s.contains("rbx") && s.contains("rbp"));
    std::mem::forget(module);
}

// ---------------------------------------------------------------- the real constructor
use super::c04_frame_pointer::{sysinfo, NoSyms};
use minidump::system_info::{Cpu, Os};
use minidump_unwind::{FrameTrust, StackFrame};

fn walker_from_args_bookkeeping() {
    // one module [0x40000000, 0x40010000), real range-map lookup (list assembled from its parts by the hook)
    let module = MinidumpModule::new(0x4000_0000, 0x1_0000, "m");
    let rm: range_map::RangeMap<u64, usize> = range_map::RangeMap::try_from_iter(vec![(range_map::Range::new(0x4000_0000u64, 0x4000_ffffu64), 0usize)]).unwrap();
    let modules = minidump::verif::module_list_from_parts(vec![module], rm);
    let ctx = x86_ctx();
    let mut callee = StackFrame::from_context(MinidumpContext::from_raw(MinidumpRawContext::X86(ctx.clone())), FrameTrust::Scan);
    // a non-context frame: the lookup address is the return address minus the call adjustment, NOT the raw ip
    callee.instruction = kani::any();
    let has_gc: bool = kani::any();
    let mut gc = StackFrame::from_context(MinidumpContext::from_raw(MinidumpRawContext::X86(CONTEXT_X86::default())), FrameTrust::Context);
    gc.parameter_size = kani::any();
    let bytes = [0u8; 8];
    let mem = MinidumpMemory { desc: Default::default(), base_address: 0x1000, size: 8, bytes: &bytes, endian: Endian::Little };
    let si = sysinfo(Os::Windows, Cpu::X86);
    let mut got = (0u64, false, 0u32);
    let r = hook::x86_with_cfi_walker_from_args(&ctx, &callee, if has_gc { Some(&gc) } else { None }, UnifiedMemory::Memory(&mem), &modules, &si, &NoSyms, |w| {
        got = (w.get_instruction(), w.has_grand_callee(), w.get_grand_callee_parameter_size());
    });
    // the module (and with it the CFI) is looked up at the frame's lookup address, not at the raw instruction pointer
    let in_module = callee.instruction >= 0x4000_0000 && callee.instruction <= 0x4000_ffff;
    assert!(r.is_some() == in_module);
    kani::cover!(r.is_some() && !(ctx.eip as u64 >= 0x4000_0000 && ctx.eip as u64 <= 0x4000_ffff), "lookup address inside the module, raw ip outside");
    if r.is_some() {
        assert!(got.0 == callee.instruction);
        // a grand-callee exists iff a frame was passed, whatever it knows about its parameter size
        assert!(got.1 == has_gc);
        assert!(got.2 == if has_gc { gc.parameter_size.unwrap_or(0) } else { 0 });
        kani::cover!(has_gc && gc.parameter_size.is_none(), "grand-callee without a known parameter size");
        let (c, s) = r.unwrap();
        // caller context starts as the callee's; caller validity = forwarded callee-saved registers
        assert!(c.eip == ctx.eip && c.esp == ctx.esp && c.ebp == ctx.ebp && c.ebx == ctx.ebx && c.esi == ctx.esi && c.edi == ctx.edi);
        assert!(s.len() == 4);
    }
    std::mem::forget(callee);
    std::mem::forget(gc);
    std::mem::forget(modules);
}

/// F: CfiStackWalker::<CONTEXT_X86>::from_ctx_and_args (the real constructor used by every get_caller_by_cfi)
/// I: callee x86 registers, the callee frame's lookup address (`instruction`, independent of the context's eip; any u64, inside or outside the module), presence of a grand-callee frame and its parameter size (known or not)
/// B: one construction
/// A: module list of one module at a fixed range, assembled from its parts by the hook (from_modules itself is out of reach); the range-map lookup is real
/// O: a walker exists iff the frame's lookup address (return address minus the call adjustment) lies in the module, whatever the raw instruction pointer; get_instruction() is that address; has_grand_callee is true iff a grand-callee frame exists; its parameter size is the frame's or 0; caller context = callee's, caller validity = forwarded callee-saved registers
#[kani::proof]
#[kani::unwind(12)]
fn c04_q_cfi_walker_x86_from_args() {
    walker_from_args_bookkeeping();
}

/// F: CfiStackWalker::from_ctx_and_args grand-callee bookkeeping (same body as c04_q_cfi_walker_x86_from_args; registered under C07 because the FPO leftover-return-address rule and `.cbCalleeParams` consume has_grand_callee / the grand-callee parameter size)
/// I: as above
/// B: one construction
/// A: as above
/// O: as above
#[kani::proof]
#[kani::unwind(12)]
fn c07_q_walker_grand_callee_bookkeeping() {
    walker_from_args_bookkeeping();
}

#[path = "../playback/c04_cfi_walker.rs"]
mod playback;
