//! C02 — reference encoder (independent of minidump-synth and of scroll's Pwrite).
use scroll::Endian;

macro_rules! put_impl {
    ($put:ident, $put_arr:ident, $t:ty, $n:expr) => {
        pub fn $put(buf: &mut [u8], off: usize, v: $t, e: Endian) {
            let b = match e {
                Endian::Little => v.to_le_bytes(),
                Endian::Big => v.to_be_bytes(),
            };
            let mut i = 0;
            while i < $n {
                buf[off + i] = b[i];
                i += 1;
            }
        }
        pub fn $put_arr<const N: usize>(buf: &mut [u8], off: usize, v: &[$t; N], e: Endian) {
            let mut k = 0;
            while k < N {
                $put(buf, off + k * $n, v[k], e);
                k += 1;
            }
        }
    };
}
put_impl!(put_u8, put_arr_u8, u8, 1);
put_impl!(put_u16, put_arr_u16, u16, 2);
put_impl!(put_u32, put_arr_u32, u32, 4);
put_impl!(put_u64, put_arr_u64, u64, 8);
put_impl!(put_u128, put_arr_u128, u128, 16);
put_impl!(put_i32, put_arr_i32, i32, 4);
put_impl!(put_i64, put_arr_i64, i64, 8);

pub fn arr_eq<T: PartialEq + Copy, const N: usize>(a: &[T; N], b: &[T; N]) -> bool {
    let mut i = 0;
    let mut ok = true;
    while i < N {
        if a[i] != b[i] {
            ok = false;
        }
        i += 1;
    }
    ok
}

pub fn size_of_wire<T: scroll::ctx::SizeWith<Endian>>(e: Endian) -> usize {
    T::size_with(&e)
}
