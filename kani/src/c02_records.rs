//! C02 — hand-written record readers and derivations (CodeView, debug id, context selection).
use super::c02_support::*;
use crate::common::{any_endian, stub_format};
use minidump::format as md;
use minidump::verif as hook;
use minidump::{CodeView, Endian, MinidumpContext, MinidumpRawContext, MinidumpStream, MinidumpSystemInfo};

fn uuid_bytes(d1: u32, d2: u16, d3: u16, d4: [u8; 8]) -> [u8; 16] {
    let a = d1.to_be_bytes();
    let b = d2.to_be_bytes();
    let c = d3.to_be_bytes();
    [a[0], a[1], a[2], a[3], b[0], b[1], c[0], c[1], d4[0], d4[1], d4[2], d4[3], d4[4], d4[5], d4[6], d4[7]]
}

/// F: read_codeview (signature dispatch), <CV_INFO_PDB70 as TryFromCtx>::try_from_ctx, read_debug_id (PDB70 arm)
/// I: GUID (data1..4), age, 4 name bytes symbolic; byte order symbolic; record at a symbolic offset 0..=4 inside a 36-byte file
/// B: one RSDS record with a 4-byte name
/// O: signature/GUID/age/name are read back exactly in either byte order; debug id = (GUID as UUID, age), absent iff the GUID is nil
#[kani::proof]
#[kani::unwind(20)]
fn c02_q_codeview_pdb70_and_debug_id() {
    let e = any_endian();
    let mut file = [0u8; 36];
    let rva: u32 = kani::any();
    kani::assume(rva <= 4);
    let o = rva as usize;
    let d1: u32 = kani::any();
    let d2: u16 = kani::any();
    let d3: u16 = kani::any();
    let d4: [u8; 8] = kani::any();
    let age: u32 = kani::any();
    let name: [u8; 4] = kani::any();
    put_u32(&mut file, o, 0x5344_5352, e);
    put_u32(&mut file, o + 4, d1, e);
    put_u16(&mut file, o + 8, d2, e);
    put_u16(&mut file, o + 10, d3, e);
    put_arr_u8(&mut file, o + 12, &d4, e);
    put_u32(&mut file, o + 20, age, e);
    put_arr_u8(&mut file, o + 24, &name, e);
    let loc = md::MINIDUMP_LOCATION_DESCRIPTOR { data_size: 28, rva };
    let cv = hook::read_codeview(&loc, &file, e);
    match &cv {
        Some(CodeView::Pdb70(r)) => {
            assert!(r.cv_signature == 0x5344_5352);
            assert!(r.signature.data1 == d1 && r.signature.data2 == d2 && r.signature.data3 == d3);
            assert!(arr_eq(&r.signature.data4, &d4));
            assert!(r.age == age);
            assert!(r.pdb_file_name.len() == 4);
            assert!(r.pdb_file_name[0] == name[0] && r.pdb_file_name[3] == name[3]);
        }
        _ => assert!(false),
    }
    let id = hook::read_debug_id(cv.as_ref().unwrap(), e);
    let ub = uuid_bytes(d1, d2, d3, d4);
    let nil = d1 == 0 && d2 == 0 && d3 == 0 && arr_eq(&d4, &[0u8; 8]);
    kani::cover!(id.is_some(), "a debug id was derived");
    match id {
        Some(id) => {
            assert!(!nil);
            assert!(arr_eq(id.uuid().as_bytes(), &ub));
            assert!(id.appendix() == age);
        }
        None => assert!(nil),
    }
    std::mem::forget(cv);
}

/// F: read_codeview, <CV_INFO_PDB20 as TryFromCtx>::try_from_ctx, read_debug_id (PDB20 arm)
/// I: cv_offset, signature, age, 2 name bytes symbolic; byte order symbolic
/// B: one NB10 record with a 2-byte name
/// O: fields read back exactly in either byte order; debug id = DebugId::from_pdb20(signature, age)
#[kani::proof]
#[kani::unwind(20)]
fn c02_q_codeview_pdb20_and_debug_id() {
    let e = any_endian();
    let mut file = [0u8; 18];
    let off: u32 = kani::any();
    let sig: u32 = kani::any();
    let age: u32 = kani::any();
    put_u32(&mut file, 0, 0x3031_424e, e);
    put_u32(&mut file, 4, off, e);
    put_u32(&mut file, 8, sig, e);
    put_u32(&mut file, 12, age, e);
    file[16] = kani::any();
    file[17] = kani::any();
    let loc = md::MINIDUMP_LOCATION_DESCRIPTOR { data_size: 18, rva: 0 };
    let cv = hook::read_codeview(&loc, &file, e);
    match &cv {
        Some(CodeView::Pdb20(r)) => {
            assert!(r.cv_signature == 0x3031_424e && r.cv_offset == off && r.signature == sig && r.age == age);
            assert!(r.pdb_file_name.len() == 2 && r.pdb_file_name[0] == file[16] && r.pdb_file_name[1] == file[17]);
        }
        _ => assert!(false),
    }
    let id = hook::read_debug_id(cv.as_ref().unwrap(), e);
    assert!(id == Some(debugid::DebugId::from_pdb20(sig, age)));
    std::mem::forget(cv);
}

macro_rules! elf_harness {
    ($name:ident, $n:expr) => {
        /// F: read_codeview, <CV_INFO_ELF as TryFromCtx>::try_from_ctx, read_debug_id (ELF arm: zero padding, GUID reinterpretation in the dump's byte order)
        /// I: build id bytes symbolic (length fixed per harness: 0, 8, 16, 20); byte order symbolic
        /// B: one BpEL record
        /// O: build id read back exactly; debug id absent iff all bytes are zero; else its UUID is the first 16 bytes (zero padded) read as a GUID in the dump's byte order, appendix 0
        #[kani::proof]
        #[kani::unwind(24)]
        fn $name() {
            const N: usize = $n;
            let e = any_endian();
            let mut file = [0u8; 4 + N];
            let id_bytes: [u8; N] = kani::any();
            put_u32(&mut file, 0, 0x4270_454c, e);
            put_arr_u8(&mut file, 4, &id_bytes, e);
            let loc = md::MINIDUMP_LOCATION_DESCRIPTOR { data_size: (4 + N) as u32, rva: 0 };
            let cv = hook::read_codeview(&loc, &file, e);
            match &cv {
                Some(CodeView::Elf(r)) => {
                    assert!(r.build_id.len() == N);
                    let mut i = 0;
                    while i < N {
                        assert!(r.build_id[i] == id_bytes[i]);
                        i += 1;
                    }
                }
                _ => assert!(false),
            }
            let id = hook::read_debug_id(cv.as_ref().unwrap(), e);
            let mut g = [0u8; 16];
            let mut all_zero = true;
            let mut i = 0;
            while i < N {
                if i < 16 {
                    g[i] = id_bytes[i];
                }
                if id_bytes[i] != 0 {
                    all_zero = false;
                }
                i += 1;
            }
            let (d1, d2, d3) = match e {
                Endian::Little => (u32::from_le_bytes([g[0], g[1], g[2], g[3]]), u16::from_le_bytes([g[4], g[5]]), u16::from_le_bytes([g[6], g[7]])),
                Endian::Big => (u32::from_be_bytes([g[0], g[1], g[2], g[3]]), u16::from_be_bytes([g[4], g[5]]), u16::from_be_bytes([g[6], g[7]])),
            };
            let ub = uuid_bytes(d1, d2, d3, [g[8], g[9], g[10], g[11], g[12], g[13], g[14], g[15]]);
            match id {
                Some(id) => {
                    assert!(!all_zero);
                    assert!(arr_eq(id.uuid().as_bytes(), &ub));
                    assert!(id.appendix() == 0);
                }
                None => assert!(all_zero),
            }
            std::mem::forget(cv);
        }
    };
}
elf_harness!(c02_q_codeview_elf_len0, 0);
elf_harness!(c02_q_codeview_elf_len8, 8);
elf_harness!(c02_q_codeview_elf_len16, 16);
elf_harness!(c02_q_codeview_elf_len20, 20);

const KNOWN_CPU_BITS: u32 = 0x80000 | 0xc0 | 0x40 | 0x20000 | 0x100000 | 0x4000_0000 | 0x400000 | 0x8000_0000 | 0x40000 | 0x2000_0000 | 0x100_0000 | 0x1000_0000 | 0x10000;

/// F: MinidumpContext::read (layout selection by processor_architecture, context_flags CPU check), ContextFlagsCpu::from_flags
/// I: context_flags (full u32), the 16 integer registers and cpsr of an ARM context; byte order; the system-info architecture is ARM
/// B: one 368-byte CONTEXT_ARM record (floating point area zero)
/// O: the context is accepted iff the CPU-type bits of context_flags (bits 8..31 restricted to the known CPU constants) say ARM, whatever the low feature bits; an accepted context is the ARM layout with the registers at their documented offsets; a buffer one byte short is rejected
#[kani::proof]
#[kani::unwind(34)]
fn c02_q_context_read_selects_arm_layout() {
    let e = any_endian();
    // MinidumpContext::read only looks at system_info.raw.processor_architecture; an all-zero
    // MinidumpSystemInfo is a valid value (integers, Os::Windows, Cpu::X86, two None strings)
    let mut si: MinidumpSystemInfo = unsafe { std::mem::zeroed() };
    si.raw.processor_architecture = 5; // PROCESSOR_ARCHITECTURE_ARM
    let mut buf = [0u8; 368];
    let flags: u32 = kani::any();
    let regs: [u32; 16] = kani::any();
    let cpsr: u32 = kani::any();
    put_u32(&mut buf, 0, flags, e);
    put_arr_u32(&mut buf, 4, &regs, e);
    put_u32(&mut buf, 68, cpsr, e);
    let r = MinidumpContext::read(&buf, e, &si, None);
    let want = (flags & 0xffff_ff00 & KNOWN_CPU_BITS) == 0x4000_0000;
    kani::cover!(r.is_ok() && flags & 0xff != 0, "accepted with feature bits set");
    assert!(r.is_ok() == want);
    if let Ok(c) = &r {
        match &c.raw {
            MinidumpRawContext::Arm(a) => {
                assert!(a.context_flags == flags && arr_eq(&a.iregs, &regs) && a.cpsr == cpsr);
            }
            _ => assert!(false),
        }
    }
    let short = MinidumpContext::read(&buf[..367], e, &si, None);
    assert!(short.is_err());
    std::mem::forget(short);
    std::mem::forget(r);
    std::mem::forget(si);
}

/// Reachability witness.
#[kani::proof]
#[kani::unwind(20)]
fn c02_w_codeview_reachable() {
    let mut file = [0u8; 28];
    put_u32(&mut file, 0, 0x5344_5352, Endian::Little);
    file[4] = kani::any();
    let loc = md::MINIDUMP_LOCATION_DESCRIPTOR { data_size: 28, rva: 0 };
    let cv = hook::read_codeview(&loc, &file, Endian::Little);
    if let Some(CodeView::Pdb70(_)) = &cv {
        assert!(false);
    }
    std::mem::forget(cv);
}

/// F: minidump::read_stream_list::<MINIDUMP_MEMORY_DESCRIPTOR> (the 0-or-4-byte padding rule between the count and the first element)
/// I: count field fixed to 1, one 16-byte element with symbolic bytes, optional 4 padding bytes (symbolic); little endian for both layouts, big endian for the padded one
/// B: one element; streams of 20 (unpadded) and 24 (padded) bytes
/// O: both layouts parse to one element whose fields are the bytes after the padding (offset 8 when padded, 4 when not); the offset ends at the end of the stream
#[kani::proof]
#[kani::unwind(9)]
#[kani::stub(alloc::fmt::format, stub_format)]
fn c02_q_list_elements_follow_padding() {
    // byte order fixed per call: with a symbolic one the count field does not fold to the constant 1
    list_with_padding::<4, 20>(Endian::Little);
    list_with_padding::<8, 24>(Endian::Little);
    list_with_padding::<8, 24>(Endian::Big);
}

fn list_with_padding<const AT: usize, const LEN: usize>(e: Endian) {
    let mut buf: [u8; LEN] = kani::any();
    put_u32(&mut buf, 0, 1, e);
    let rd = |o: usize, n: usize| {
        let mut v: u64 = 0;
        let mut i = 0;
        while i < n {
            let b = match e {
                Endian::Little => buf[o + n - 1 - i],
                Endian::Big => buf[o + i],
            };
            v = (v << 8) | b as u64;
            i += 1;
        }
        v
    };
    let mut off = 0usize;
    let r = minidump::verif::read_stream_list::<minidump::format::MINIDUMP_MEMORY_DESCRIPTOR>(&mut off, &buf[..], e);
    match &r {
        Ok(v) => {
            assert!(v.len() == 1 && off == LEN);
            assert!(v[0].start_of_memory_range == rd(AT, 8) && v[0].memory.data_size as u64 == rd(AT + 8, 4) && v[0].memory.rva as u64 == rd(AT + 12, 4));
        }
        Err(_) => assert!(false),
    }
    std::mem::forget(r);
}

#[path = "../playback/c02_records.rs"]
mod playback;
