//! C01 — key/value text streams (Linux lsb-release, cpuinfo, environ, status): the byte-string kernels.
use minidump::strings::LinuxOsStr;
use minidump::{Endian, MinidumpLinuxCpuInfo, MinidumpLinuxLsbRelease, MinidumpStream};

fn is_ws(b: u8) -> bool {
    b.is_ascii_whitespace()
}

/// F: minidump::strings::LinuxOsStr::{trim_ascii_whitespace, split_once, rsplit_once}
/// I: 6 symbolic bytes, length 0..=6, separator byte
/// B: strings <= 6 bytes
/// O: never panics (also for all-whitespace and empty strings); trim returns the sub-slice between the first and last non-whitespace byte (empty when there is none); split_once / rsplit_once cut at the first / last separator and the parts add up to the input minus the separator
#[kani::proof]
#[kani::unwind(9)]
fn c01_q_linux_str_kernels() {
    let b: [u8; 6] = kani::any();
    let len: usize = kani::any();
    kani::assume(len <= 6);
    let s = LinuxOsStr::from_bytes(&b[..len]);
    let t = s.trim_ascii_whitespace().as_bytes();
    // reference
    let mut first = len;
    let mut last = 0usize;
    let mut any = false;
    let mut i = 0;
    while i < 6 {
        if i < len && !is_ws(b[i]) {
            if !any {
                first = i;
            }
            any = true;
            last = i;
        }
        i += 1;
    }
    kani::cover!(len > 0 && !any, "a non-empty all-whitespace string");
    if any {
        assert!(t.len() == last - first + 1);
        assert!(t.as_ptr() == b[first..].as_ptr());
    } else {
        assert!(t.is_empty());
    }
    let sep: u8 = kani::any();
    if let Some((l, r)) = s.split_once(sep) {
        assert!(l.len() + 1 + r.len() == len);
        assert!(b[l.len()] == sep);
        let mut k = 0;
        while k < 6 {
            if k < l.len() {
                assert!(b[k] != sep);
            }
            k += 1;
        }
    }
    if let Some((l, r)) = s.rsplit_once(sep) {
        assert!(l.len() + 1 + r.len() == len);
        assert!(b[l.len()] == sep);
    }
}

/// F: MinidumpLinuxLsbRelease::iter / MinidumpLinuxCpuInfo::iter (linux_list_iter: lines, split_once, strip_quotes, trim_ascii_whitespace)
/// I: 6 symbolic stream bytes, length 0..=6
/// B: streams <= 6 bytes; the iterator is stepped 4 times
/// O: never panics (blank values, lone quotes, all-whitespace keys included); keys and values are sub-slices of the stream without surrounding whitespace
#[kani::proof]
#[kani::unwind(9)]
fn c01_q_linux_key_value_iter() {
    let b: [u8; 6] = kani::any();
    let len: usize = kani::any();
    kani::assume(len <= 6);
    let lsb = MinidumpLinuxLsbRelease::read(&b[..len], &b[..len], Endian::Little, None).unwrap();
    let mut it = lsb.iter();
    let mut n = 0;
    let mut k = 0;
    while k < 4 {
        if let Some((key, val)) = it.next() {
            n += 1;
            assert!(key.len() + val.len() < len);
            if key.len() > 0 {
                assert!(!is_ws(key[0]) && !is_ws(key[key.len() - 1]));
            }
            if val.len() > 0 {
                assert!(!is_ws(val[0]) && !is_ws(val[val.len() - 1]));
            }
        }
        k += 1;
    }
    kani::cover!(n >= 2, "two key/value lines were parsed");
    let cpu = MinidumpLinuxCpuInfo::read(&b[..len], &b[..len], Endian::Little, None).unwrap();
    let mut it = cpu.iter();
    let _ = it.next();
    let _ = it.next();
}

#[path = "../playback/c01_linux_text.rs"]
mod playback;
