//! C01 — key/value text streams (Linux lsb-release, cpuinfo, environ, status): the byte-string kernels.
use minidump::strings::LinuxOsStr;

fn is_ws(b: u8) -> bool {
    b.is_ascii_whitespace()
}

/// F: minidump::strings::LinuxOsStr::{trim_ascii_whitespace, split_once, rsplit_once}
/// I: 6 symbolic bytes, length 0..=6, separator byte
/// B: strings <= 6 bytes
/// O: never panics (also for all-whitespace and empty strings); trim returns the sub-slice between the first and last non-whitespace byte (empty when there is none); split_once / rsplit_once cut at the first / last separator and the parts add up to the input minus the separator
#[kani::proof]
#[kani::unwind(9)]
fn c01_q_linux_str_kernels() {
    let b: [u8; 6] = kani::any();
    let len: usize = kani::any();
    kani::assume(len <= 6);
    let s = LinuxOsStr::from_bytes(&b[..len]);
    let t = s.trim_ascii_whitespace().as_bytes();
    // reference
    let mut first = len;
    let mut last = 0usize;
    let mut any = false;
    let mut i = 0;
    while i < 6 {
        if i < len && !is_ws(b[i]) {
            if !any {
                first = i;
            }
            any = true;
            last = i;
        }
        i += 1;
    }
    kani::cover!(len > 0 && !any, "a non-empty all-whitespace string");
    if any {
        assert!(t.len() == last - first + 1);
        assert!(t.as_ptr() == b[first..].as_ptr());
    } else {
        assert!(t.is_empty());
    }
    let sep: u8 = kani::any();
    if let Some((l, r)) = s.split_once(sep) {
        assert!(l.len() + 1 + r.len() == len);
        assert!(b[l.len()] == sep);
        let mut k = 0;
        while k < 6 {
            if k < l.len() {
                assert!(b[k] != sep);
            }
            k += 1;
        }
    }
    if let Some((l, r)) = s.rsplit_once(sep) {
        assert!(l.len() + 1 + r.len() == len);
        assert!(b[l.len()] == sep);
    }
}

// (A harness stepping MinidumpLinuxLsbRelease::iter over 6 symbolic bytes did not finish in 400 s: nested
// split/filter_map iterators over symbolic split points. The kernels it is built from are decided above.)

#[path = "../playback/c01_linux_text.rs"]
mod playback;
