//! C17 — lookup paths stay inside the symbol directories: the leaf-name kernel.
use breakpad_symbols::verif as hook;

fn any_ascii<const L: usize>() -> ([u8; L], usize) {
    let b: [u8; L] = kani::any();
    let len: usize = kani::any();
    kani::assume(len <= L);
    let mut i = 0;
    while i < L {
        kani::assume(b[i] < 128);
        i += 1;
    }
    (b, len)
}

/// F: breakpad_symbols::leafname
/// I: ASCII strings of length 0..=5 (every byte symbolic)
/// B: names up to 5 bytes; ASCII only
/// A: input is ASCII (path separators are ASCII; multi-byte UTF-8 never contains them)
/// O: the result is the suffix of the input after the last '/' or '\\' (the whole input when there is none) and contains no separator
#[kani::proof]
#[kani::unwind(8)]
fn c17_q_leafname_is_last_component() {
    let (b, len) = any_ascii::<5>();
    let s = unsafe { std::str::from_utf8_unchecked(&b[..len]) };
    let l = hook::leafname(s);
    let lb = l.as_bytes();
    assert!(lb.len() <= len);
    let start = len - lb.len();
    let mut k = 0;
    while k < 5 {
        if k < lb.len() {
            assert!(lb[k] == b[start + k]);
            assert!(lb[k] != b'/' && lb[k] != b'\\');
        }
        k += 1;
    }
    assert!(start == 0 || b[start - 1] == b'/' || b[start - 1] == b'\\');
    kani::cover!(start > 0 && lb.len() > 0, "a directory part was stripped");
}

/// F: breakpad_symbols::safe_leafname (the leaf every lookup path is built from: breakpad_sym_lookup, code_info_breakpad_sym_lookup, extra_debuginfo_lookup, binary_lookup)
/// I: ASCII strings of length 0..=5 (every byte symbolic)
/// B: names up to 5 bytes; ASCII only
/// A: input is ASCII. Manual reduction (not solver-checked): every relative lookup path is leaf "/" id "/" leaf' with id made of hex digits and leaf' = leaf with an extension swapped, so it is a safe relative path iff leaf is a safe single component
/// O: Some(leaf) => leaf is the last component, non-empty, contains no separator, is not "." or ".." and has no drive prefix "<letter>:"; None only for such unusable leaves
#[kani::proof]
#[kani::unwind(8)]
fn c17_q_lookup_leaf_is_safe_component() {
    let (b, len) = any_ascii::<5>();
    let s = unsafe { std::str::from_utf8_unchecked(&b[..len]) };
    let raw = hook::leafname(s);
    let rb = raw.as_bytes();
    let unsafe_leaf = rb.is_empty()
        || (rb.len() == 1 && rb[0] == b'.')
        || (rb.len() == 2 && rb[0] == b'.' && rb[1] == b'.')
        || (rb.len() >= 2 && rb[1] == b':' && rb[0].is_ascii_alphabetic());
    let got = hook::safe_leafname(s);
    kani::cover!(got.is_none() && rb.len() == 2, "a two-byte unsafe leaf was rejected");
    kani::cover!(got.is_some() && rb.len() < len, "a safe leaf after a directory part");
    match got {
        Some(l) => {
            assert!(!unsafe_leaf);
            assert!(l.as_ptr() == raw.as_ptr() && l.len() == raw.len());
        }
        None => assert!(unsafe_leaf),
    }
}

/// Reachability witness.
#[kani::proof]
#[kani::unwind(8)]
fn c17_w_leafname_reachable() {
    let l = hook::leafname("a/b");
    assert!(l.len() == 1);
    assert!(false);
}

#[path = "../playback/c17_paths.rs"]
mod playback;
