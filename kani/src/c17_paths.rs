//! C17 — lookup paths stay inside the symbol directories: the leaf-name kernel.
use breakpad_symbols::verif as hook;

fn any_ascii<const L: usize>() -> ([u8; L], usize) {
    let b: [u8; L] = kani::any();
    let len: usize = kani::any();
    kani::assume(len <= L);
    let mut i = 0;
    while i < L {
        kani::assume(b[i] < 128);
        i += 1;
    }
    (b, len)
}

/// F: breakpad_symbols::leafname
/// I: ASCII strings of length 0..=5 (every byte symbolic)
/// B: names up to 5 bytes; ASCII only
/// A: input is ASCII (path separators are ASCII; multi-byte UTF-8 never contains them)
/// O: the result is the suffix of the input after the last '/' or '\\' (the whole input when there is none) and contains no separator
#[kani::proof]
#[kani::unwind(8)]
fn c17_q_leafname_is_last_component() {
    let (b, len) = any_ascii::<5>();
    let s = unsafe { std::str::from_utf8_unchecked(&b[..len]) };
    let l = hook::leafname(s);
    let lb = l.as_bytes();
    assert!(lb.len() <= len);
    let start = len - lb.len();
    let mut k = 0;
    while k < 5 {
        if k < lb.len() {
            assert!(lb[k] == b[start + k]);
            assert!(lb[k] != b'/' && lb[k] != b'\\');
        }
        k += 1;
    }
    assert!(start == 0 || b[start - 1] == b'/' || b[start - 1] == b'\\');
    kani::cover!(start > 0 && lb.len() > 0, "a directory part was stripped");
}

/// F: breakpad_symbols::safe_leafname (the leaf every lookup path is built from: breakpad_sym_lookup, code_info_breakpad_sym_lookup, extra_debuginfo_lookup, binary_lookup)
/// I: ASCII strings of length 0..=5 (every byte symbolic)
/// B: names up to 5 bytes; ASCII only
/// A: input is ASCII. Manual reduction (not solver-checked): every relative lookup path is leaf "/" id "/" leaf' with id made of hex digits and leaf' = leaf with an extension swapped, so it is a safe relative path iff leaf is a safe single component
/// O: Some(leaf) => leaf is the last component, non-empty, contains no separator, is not "." or ".." and has no drive prefix "<letter>:"; None only for such unusable leaves
#[kani::proof]
#[kani::unwind(8)]
fn c17_q_lookup_leaf_is_safe_component() {
    let (b, len) = any_ascii::<5>();
    let s = unsafe { std::str::from_utf8_unchecked(&b[..len]) };
    let raw = hook::leafname(s);
    let rb = raw.as_bytes();
    let unsafe_leaf = rb.is_empty()
        || (rb.len() == 1 && rb[0] == b'.')
        || (rb.len() == 2 && rb[0] == b'.' && rb[1] == b'.')
        || (rb.len() >= 2 && rb[1] == b':' && rb[0].is_ascii_alphabetic());
    let got = hook::safe_leafname(s);
    kani::cover!(got.is_none() && rb.len() == 2, "a two-byte unsafe leaf was rejected");
    kani::cover!(got.is_some() && rb.len() < len, "a safe leaf after a directory part");
    match got {
        Some(l) => {
            assert!(!unsafe_leaf);
            assert!(l.as_ptr() == raw.as_ptr() && l.len() == raw.len());
        }
        None => assert!(unsafe_leaf),
    }
}

// ---------------------------------------------------------------- the lookup functions themselves
use breakpad_symbols::{binary_lookup, breakpad_sym_lookup, extra_debuginfo_lookup, Module};
use debugid::{CodeId, DebugId};
use std::borrow::Cow;

struct M<'a> {
    code: &'a str,
    debug: &'a str,
}
impl<'a> Module for M<'a> {
    fn base_address(&self) -> u64 { 0 }
    fn size(&self) -> u64 { 0 }
    fn code_file(&self) -> Cow<'_, str> { Cow::Borrowed(self.code) }
    fn code_identifier(&self) -> Option<CodeId> { Some(CodeId::nil()) }
    fn debug_file(&self) -> Option<Cow<'_, str>> { Some(Cow::Borrowed(self.debug)) }
    fn debug_identifier(&self) -> Option<DebugId> { Some(DebugId::nil()) }
    fn version(&self) -> Option<Cow<'_, str>> { None }
}

pub fn id_string<T: ?Sized>(_x: &T) -> String {
    String::from("I")
}

fn leaf_of(b: &[u8]) -> &[u8] {
    let mut start = 0;
    let mut i = 0;
    while i < b.len() {
        if b[i] == b'/' || b[i] == b'\\' {
            start = i + 1;
        }
        i += 1;
    }
    &b[start..]
}
fn is_safe(l: &[u8]) -> bool {
    !(l.is_empty() || (l.len() == 1 && l[0] == b'.') || (l.len() == 2 && l[0] == b'.' && l[1] == b'.') || (l.len() >= 2 && l[1] == b':' && l[0].is_ascii_alphabetic()))
}
fn is_cat(got: &[u8], a: &[u8], mid: &[u8], c: &[u8]) -> bool {
    if got.len() != a.len() + mid.len() + c.len() + 2 {
        return false;
    }
    let mut k = 0;
    let mut i = 0;
    while i < a.len() { if got[k] != a[i] { return false; } k += 1; i += 1; }
    if got[k] != b'/' { return false; }
    k += 1;
    i = 0;
    while i < mid.len() { if got[k] != mid[i] { return false; } k += 1; i += 1; }
    if got[k] != b'/' { return false; }
    k += 1;
    i = 0;
    while i < c.len() { if got[k] != c[i] { return false; } k += 1; i += 1; }
    true
}

/// F: breakpad_symbols::extra_debuginfo_lookup (safe_leafname, the `[leaf, id, leaf].join("/")` assembly)
/// I: debug file name: ASCII string of 0..=3 symbolic bytes (separators, dots, colons included)
/// B: names up to 3 bytes
/// A: DebugId / BreakpadFormat `to_string` replaced by a stub returning "I" (hex formatting is not the subject)
/// O: None exactly for names whose leaf is empty, ".", ".." or drive-prefixed; otherwise cache_rel and server_rel are exactly `<leaf>/<id>/<leaf>`: three components, the outer two the safe leaf of the name - nothing of the directory part of the name reaches the path
#[kani::proof]
#[kani::unwind(8)]
#[kani::stub(<debugid::DebugId as std::string::ToString>::to_string, id_string)]
#[kani::stub(<debugid::BreakpadFormat<'_> as std::string::ToString>::to_string, id_string)]
fn c17_q_lookup_paths_extra_debuginfo() {
    let (d, dl) = any_ascii::<3>();
    let debug = unsafe { std::str::from_utf8_unchecked(&d[..dl]) };
    let m = M { code: "c", debug };
    let r = extra_debuginfo_lookup(&m);
    let leaf = leaf_of(&d[..dl]);
    match &r {
        Some(l) => {
            assert!(is_safe(leaf));
            // the id text comes from the same call the lookup makes: the stub's "I" in the solver run, the real text in a native replay
            let id = DebugId::nil().breakpad().to_string();
            assert!(is_cat(l.cache_rel.as_bytes(), leaf, id.as_bytes(), leaf));
            assert!(is_cat(l.server_rel.as_bytes(), leaf, id.as_bytes(), leaf));
            std::mem::forget(id);
        }
        None => assert!(!is_safe(leaf)),
    }
    std::mem::forget(r);
}

/// F: breakpad_symbols::binary_lookup
/// I: code file name and debug file name: ASCII strings of 0..=3 symbolic bytes each
/// B: names up to 3 bytes
/// A: as above
/// O: None exactly when either leaf is unusable; otherwise cache_rel is `<debug leaf>/<id>/<code leaf>` and server_rel is `<code leaf>/<code id>/<code leaf>` - built from the leaves, never from the raw names
#[kani::proof]
#[kani::unwind(8)]
#[kani::stub(<debugid::DebugId as std::string::ToString>::to_string, id_string)]
#[kani::stub(<debugid::BreakpadFormat<'_> as std::string::ToString>::to_string, id_string)]
fn c17_q_lookup_paths_binary() {
    let (d, dl) = any_ascii::<3>();
    let (c, cl) = any_ascii::<3>();
    let debug = unsafe { std::str::from_utf8_unchecked(&d[..dl]) };
    let code = unsafe { std::str::from_utf8_unchecked(&c[..cl]) };
    let m = M { code, debug };
    let r = binary_lookup(&m);
    let dleaf = leaf_of(&d[..dl]);
    let cleaf = leaf_of(&c[..cl]);
    match &r {
        Some(l) => {
            assert!(is_safe(dleaf) && is_safe(cleaf));
            let id = DebugId::nil().breakpad().to_string();
            assert!(is_cat(l.cache_rel.as_bytes(), dleaf, id.as_bytes(), cleaf));
            std::mem::forget(id);
            assert!(is_cat(l.server_rel.as_bytes(), cleaf, CodeId::nil().as_ref().as_bytes(), cleaf));
        }
        None => assert!(!is_safe(dleaf) || !is_safe(cleaf)),
    }
    std::mem::forget(r);
}


pub fn ext_stub(filename: &str, _m: &str, new_extension: &str) -> String {
    let _ = (filename, new_extension);
    String::from("f.sym")
}

/// F: breakpad_symbols::breakpad_sym_lookup
/// I: debug file name: ASCII string of 0..=3 symbolic bytes
/// B: names up to 3 bytes
/// A: as above; replace_or_add_extension (split / to_lowercase / join: not encodable on symbolic text) replaced by a stub returning "f.sym"
/// O: None exactly for unusable leaves; otherwise cache_rel and server_rel are exactly `<leaf>/<id>/<file>` with the first component the safe leaf itself (nothing trimmed or rewritten after the safety check)
#[kani::proof]
#[kani::unwind(10)]
#[kani::stub(<debugid::DebugId as std::string::ToString>::to_string, id_string)]
#[kani::stub(<debugid::BreakpadFormat<'_> as std::string::ToString>::to_string, id_string)]
#[kani::stub(breakpad_symbols::replace_or_add_extension, ext_stub)]
fn c17_q_lookup_paths_breakpad_sym() {
    let (d, dl) = any_ascii::<3>();
    let debug = unsafe { std::str::from_utf8_unchecked(&d[..dl]) };
    let m = M { code: "c", debug };
    let r = breakpad_sym_lookup(&m);
    let leaf = leaf_of(&d[..dl]);
    match &r {
        Some(l) => {
            assert!(is_safe(leaf));
            let id = DebugId::nil().breakpad().to_string();
            let file = hook::replace_or_add_extension(unsafe { std::str::from_utf8_unchecked(leaf) }, "pdb", "sym");
            assert!(is_cat(l.cache_rel.as_bytes(), leaf, id.as_bytes(), file.as_bytes()));
            assert!(is_cat(l.server_rel.as_bytes(), leaf, id.as_bytes(), file.as_bytes()));
            std::mem::forget(id);
            std::mem::forget(file);
        }
        None => assert!(!is_safe(leaf)),
    }
    std::mem::forget(r);
}

/// F: breakpad_symbols::code_info_breakpad_sym_lookup
/// I: code file name: ASCII string of 0..=3 symbolic bytes
/// B: names up to 3 bytes
/// A: CodeId `to_string` replaced by a stub returning "I" (its upper-casing then runs on that constant); replace_or_add_extension replaced by a stub returning "f.sym"
/// O: None exactly for an empty name or an unusable leaf (empty, ".", "..", drive-prefixed); otherwise the path is exactly `<leaf>/<ID>/<file>` with the first component the safe leaf
#[kani::proof]
#[kani::unwind(10)]
#[kani::stub(<debugid::CodeId as std::string::ToString>::to_string, id_string)]
#[kani::stub(breakpad_symbols::replace_or_add_extension, ext_stub)]
fn c17_q_lookup_paths_code_info() {
    let (c, cl) = any_ascii::<3>();
    let code = unsafe { std::str::from_utf8_unchecked(&c[..cl]) };
    let m = M { code, debug: "d" };
    let r = breakpad_symbols::code_info_breakpad_sym_lookup(&m);
    let leaf = leaf_of(&c[..cl]);
    match &r {
        Some(p) => {
            assert!(cl > 0 && is_safe(leaf));
            let id = CodeId::nil().to_string().to_uppercase();
            let file = hook::replace_or_add_extension(unsafe { std::str::from_utf8_unchecked(leaf) }, "dll", "sym");
            assert!(is_cat(p.as_bytes(), leaf, id.as_bytes(), file.as_bytes()));
            std::mem::forget(id);
            std::mem::forget(file);
        }
        None => assert!(cl == 0 || !is_safe(leaf)),
    }
    std::mem::forget(r);
}

/// Reachability witness.
#[kani::proof]
#[kani::unwind(8)]
fn c17_w_leafname_reachable() {
    let l = hook::leafname("a/b");
    assert!(l.len() == 1);
    assert!(false);
}

#[path = "../playback/c17_paths.rs"]
mod playback;
