//! C14 — the process state is a faithful index of the dump: exception-record functions.
use crate::common::any_endian;
use minidump::format as md;
use minidump::system_info::{Cpu, Os};
use minidump::{Endian, MinidumpException, MinidumpStream};

fn any_os() -> Os {
    match kani::any::<u8>() % 9 {
        0 => Os::Windows,
        1 => Os::MacOs,
        2 => Os::Ios,
        3 => Os::Linux,
        4 => Os::Solaris,
        5 => Os::Android,
        6 => Os::Ps3,
        7 => Os::NaCl,
        _ => Os::Unknown(kani::any()),
    }
}
fn any_cpu() -> Cpu {
    match kani::any::<u8>() % 10 {
        0 => Cpu::X86,
        1 => Cpu::X86_64,
        2 => Cpu::Ppc,
        3 => Cpu::Ppc64,
        4 => Cpu::Sparc,
        5 => Cpu::Arm,
        6 => Cpu::Arm64,
        7 => Cpu::Mips,
        8 => Cpu::Mips64,
        _ => Cpu::Unknown(kani::any()),
    }
}
fn is32(c: Cpu) -> bool {
    matches!(c, Cpu::X86 | Cpu::Ppc | Cpu::Sparc | Cpu::Arm | Cpu::Mips)
}

/// F: MinidumpException::read, MinidumpException::get_crash_address, get_crashing_thread_id, Cpu::pointer_width
/// I: all 168 bytes of the exception stream, byte order, OS over all variants incl. Unknown(u32), CPU over all variants incl. Unknown(u16)
/// B: one exception record
/// O: address = exception_information[1] iff Windows and code in {ACCESS_VIOLATION 0xC0000005, IN_PAGE_ERROR 0xC0000006} and number_parameters >= 2, else exception_address; zero-extended from 32 bits iff the CPU is 32-bit; thread id is the record's
#[kani::proof]
#[kani::unwind(18)]
fn c14_q_crash_address_is_documented_function() {
    let bytes: [u8; 168] = kani::any();
    let e = any_endian();
    let ex = MinidumpException::read(&bytes, &bytes, e, None).unwrap();
    let os = any_os();
    let cpu = any_cpu();
    let rec = &ex.raw.exception_record;
    let code = rec.exception_code;
    let uses_param = matches!(os, Os::Windows) && (code == 0xC000_0005 || code == 0xC000_0006) && rec.number_parameters >= 2;
    let raw = if uses_param { rec.exception_information[1] } else { rec.exception_address };
    let want = if is32(cpu) { raw & 0xffff_ffff } else { raw };
    kani::cover!(uses_param && is32(cpu) && raw > 0xffff_ffff, "sign-extended 32-bit fault address masked");
    assert!(ex.get_crash_address(os, cpu) == want);
    assert!(ex.get_crashing_thread_id() == ex.raw.thread_id);
}

/// F: MinidumpException::read (thread id, context location)
/// I: all 168 bytes of the stream + 8 trailing file bytes, byte order
/// B: file of 176 bytes
/// O: thread id and the exception record's scalar fields are the values at the documented offsets in the stream's byte order; the context slice is exactly file[rva .. rva+size] when that lies inside the file, else absent
#[kani::proof]
#[kani::unwind(18)]
fn c14_q_exception_read_fields() {
    let all: [u8; 176] = kani::any();
    let e = any_endian();
    let ex = MinidumpException::read(&all[..168], &all, e, None).unwrap();
    let rd32 = |o: usize| {
        let b = [all[o], all[o + 1], all[o + 2], all[o + 3]];
        match e {
            Endian::Little => u32::from_le_bytes(b),
            Endian::Big => u32::from_be_bytes(b),
        }
    };
    assert!(ex.thread_id == rd32(0));
    assert!(ex.raw.exception_record.exception_code == rd32(8));
    assert!(ex.raw.exception_record.exception_flags == rd32(12));
    assert!(ex.raw.exception_record.number_parameters == rd32(32));
    let size = rd32(160) as usize;
    let rva = rd32(164) as usize;
    kani::cover!(size > 0 && rva + size <= 176, "context inside the file");
    // private field `context` is observable through `context()`; here only its presence via print-independent API:
    // (MinidumpException::context needs system info; the slice itself is checked in C01's location_slice harness)
    let _ = (size, rva);
}

/// Reachability witness.
#[kani::proof]
#[kani::unwind(18)]
fn c14_w_crash_address_reachable() {
    let bytes: [u8; 168] = kani::any();
    let ex = MinidumpException::read(&bytes, &bytes, Endian::Little, None).unwrap();
    let a = ex.get_crash_address(Os::Windows, Cpu::X86);
    assert!(a <= u32::MAX as u64);
    assert!(false);
}

#[path = "../playback/c14_exception.rs"]
mod playback;
