//! C14 — the process state is a faithful index of the dump: exception-record functions.
use crate::common::any_endian;
use minidump::format as md;
use minidump::system_info::{Cpu, Os};
use minidump::{CrashReason, Endian, MinidumpException, MinidumpStream};

fn any_os() -> Os {
    match kani::any::<u8>() % 9 {
        0 => Os::Windows,
        1 => Os::MacOs,
        2 => Os::Ios,
        3 => Os::Linux,
        4 => Os::Solaris,
        5 => Os::Android,
        6 => Os::Ps3,
        7 => Os::NaCl,
        _ => Os::Unknown(kani::any()),
    }
}
fn any_cpu() -> Cpu {
    match kani::any::<u8>() % 10 {
        0 => Cpu::X86,
        1 => Cpu::X86_64,
        2 => Cpu::Ppc,
        3 => Cpu::Ppc64,
        4 => Cpu::Sparc,
        5 => Cpu::Arm,
        6 => Cpu::Arm64,
        7 => Cpu::Mips,
        8 => Cpu::Mips64,
        _ => Cpu::Unknown(kani::any()),
    }
}
fn is32(c: Cpu) -> bool {
    matches!(c, Cpu::X86 | Cpu::Ppc | Cpu::Sparc | Cpu::Arm | Cpu::Mips)
}

/// F: MinidumpException::read, MinidumpException::get_crash_address, get_crashing_thread_id, Cpu::pointer_width
/// I: all 168 bytes of the exception stream, byte order, OS over all variants incl. Unknown(u32), CPU over all variants incl. Unknown(u16)
/// B: one exception record
/// O: address = exception_information[1] iff Windows and code in {ACCESS_VIOLATION 0xC0000005, IN_PAGE_ERROR 0xC0000006} and number_parameters >= 2, else exception_address; zero-extended from 32 bits iff the CPU is 32-bit; thread id is the record's
#[kani::proof]
#[kani::unwind(18)]
fn c14_q_crash_address_is_documented_function() {
    let bytes: [u8; 168] = kani::any();
    let e = any_endian();
    let ex = MinidumpException::read(&bytes, &bytes, e, None).unwrap();
    let os = any_os();
    let cpu = any_cpu();
    let rec = &ex.raw.exception_record;
    let code = rec.exception_code;
    let uses_param = matches!(os, Os::Windows) && (code == 0xC000_0005 || code == 0xC000_0006) && rec.number_parameters >= 2;
    let raw = if uses_param { rec.exception_information[1] } else { rec.exception_address };
    let want = if is32(cpu) { raw & 0xffff_ffff } else { raw };
    kani::cover!(uses_param && is32(cpu) && raw > 0xffff_ffff, "sign-extended 32-bit fault address masked");
    assert!(ex.get_crash_address(os, cpu) == want);
    assert!(ex.get_crashing_thread_id() == ex.raw.thread_id);
}

/// F: MinidumpException::read (thread id, context location)
/// I: all 168 bytes of the stream + 8 trailing file bytes, byte order
/// B: file of 176 bytes
/// O: thread id and the exception record's scalar fields are the values at the documented offsets in the stream's byte order; the context slice is exactly file[rva .. rva+size] when that lies inside the file, else absent
#[kani::proof]
#[kani::unwind(18)]
fn c14_q_exception_read_fields() {
    let all: [u8; 176] = kani::any();
    let e = any_endian();
    let ex = MinidumpException::read(&all[..168], &all, e, None).unwrap();
    let rd32 = |o: usize| {
        let b = [all[o], all[o + 1], all[o + 2], all[o + 3]];
        match e {
            Endian::Little => u32::from_le_bytes(b),
            Endian::Big => u32::from_be_bytes(b),
        }
    };
    assert!(ex.thread_id == rd32(0));
    assert!(ex.raw.exception_record.exception_code == rd32(8));
    assert!(ex.raw.exception_record.exception_flags == rd32(12));
    assert!(ex.raw.exception_record.number_parameters == rd32(32));
    let size = rd32(160) as usize;
    let rva = rd32(164) as usize;
    kani::cover!(size > 0 && rva + size <= 176, "context inside the file");
    // private field `context` is observable through `context()`; here only its presence via print-independent API:
    // (MinidumpException::context needs system info; the slice itself is checked in C01's location_slice harness)
    let _ = (size, rva);
}

/// Stand-in for `CrashReason::from_windows_error` (WinError / NTSTATUS / facility tables: several thousand
/// enum variants whose `from_u32` make Kani's goto-instrument run out of memory, design probe ak).
pub fn stub_win_error(code: u32) -> CrashReason {
    CrashReason::WindowsUnknown(code)
}

/// F: CrashReason::from_windows_exception, CrashReason::from_windows_code, ExceptionCodeWindows::from_u32, ExceptionCodeWindowsAccessType / InPageErrorType::from_u64
/// I: all 168 bytes of the exception stream (any code, flags, parameter count, parameters)
/// B: one exception record
/// A: CrashReason::from_windows_error (the WinError/NTSTATUS tables) replaced by a stub returning WindowsUnknown(code); codes that are ExceptionCodeWindows members never reach it
/// O: EXCEPTION_ACCESS_VIOLATION becomes WindowsAccessViolation(kind) exactly when number_parameters >= 1 and parameter 0 is 0/1/8 (read/write/exec), else WindowsGeneral; EXCEPTION_IN_PAGE_ERROR becomes WindowsInPageError(kind, parameter 2 & 0xffffffff) exactly when number_parameters >= 3 and parameter 0 is 0/1/8; every other code yields some reason; never panics
#[kani::proof]
#[kani::unwind(18)]
#[kani::stub(minidump::CrashReason::from_windows_error, stub_win_error)]
fn c14_q_windows_reason_refinement() {
    let bytes: [u8; 168] = kani::any();
    let ex = MinidumpException::read(&bytes, &bytes, any_endian(), None).unwrap();
    let rec = &ex.raw.exception_record;
    let code = rec.exception_code;
    let n = rec.number_parameters;
    let i0 = rec.exception_information[0];
    let i2 = rec.exception_information[2];
    let r = CrashReason::from_windows_exception(&ex.raw, any_cpu());
    let kind = i0 == 0 || i0 == 1 || i0 == 8;
    kani::cover!(code == 0xC000_0006 && n >= 3 && kind, "an in-page error with its kind");
    if code == 0xC000_0005 {
        if n >= 1 && kind {
            match r {
                Some(CrashReason::WindowsAccessViolation(t)) => assert!(t as u64 == i0),
                _ => assert!(false),
            }
        } else {
            assert!(matches!(r, Some(CrashReason::WindowsGeneral(_))));
        }
    } else if code == 0xC000_0006 {
        if n >= 3 && kind {
            match r {
                Some(CrashReason::WindowsInPageError(t, s)) => assert!(t as u64 == i0 && s == (i2 & 0xffff_ffff)),
                _ => assert!(false),
            }
        } else {
            assert!(matches!(r, Some(CrashReason::WindowsGeneral(_))));
        }
    } else {
        assert!(r.is_some());
    }
    std::mem::forget(r);
}

/// F: CrashReason::from_exception (OS dispatch) via MinidumpException::get_crash_reason, for operating systems without a reason table
/// I: all 168 bytes of the exception stream; OS in {Solaris, PS3, NaCl, Unknown(any)}; CPU any
/// B: one exception record
/// A: from_windows_error stubbed (keeps the Windows tables out of the build; not reached for these OSes)
/// O: the reason is exactly Unknown(exception_code, exception_flags); never panics
#[kani::proof]
#[kani::unwind(18)]
#[kani::stub(minidump::CrashReason::from_windows_error, stub_win_error)]
fn c14_q_reason_unknown_os() {
    let bytes: [u8; 168] = kani::any();
    let ex = MinidumpException::read(&bytes, &bytes, any_endian(), None).unwrap();
    let os = match kani::any::<u8>() % 4 {
        0 => Os::Solaris,
        1 => Os::Ps3,
        2 => Os::NaCl,
        _ => Os::Unknown(kani::any()),
    };
    let r = ex.get_crash_reason(os, any_cpu());
    match r {
        CrashReason::Unknown(c, f) => assert!(c == ex.raw.exception_record.exception_code && f == ex.raw.exception_record.exception_flags),
        _ => assert!(false),
    }
}

/// F: CrashReason::from_exception -> from_linux_exception / from_mac_exception (OS dispatch, signal and si_code tables, mach exception tables)
/// I: all 168 bytes of the exception stream; OS in {Linux, Android, macOS, iOS}; CPU any
/// B: one exception record
/// A: from_windows_error stubbed (keeps the Windows tables out of the build; not reached for these OSes)
/// O: never panics for any code/flags/parameters; on Linux/Android a reason that carries raw values carries the record's own (LinuxGeneral(signal, flags): signal number = exception_code, flags = exception_flags; a refined kind equals exception_flags and belongs to that signal; an unknown signal gives Unknown(code, flags))
#[kani::proof]
#[kani::unwind(18)]
#[kani::stub(minidump::CrashReason::from_windows_error, stub_win_error)]
fn c14_q_reason_linux_mac_total() {
    let bytes: [u8; 168] = kani::any();
    let ex = MinidumpException::read(&bytes, &bytes, any_endian(), None).unwrap();
    let code = ex.raw.exception_record.exception_code;
    let flags = ex.raw.exception_record.exception_flags;
    let linux: bool = kani::any();
    let os = if linux {
        if kani::any() { Os::Linux } else { Os::Android }
    } else if kani::any() {
        Os::MacOs
    } else {
        Os::Ios
    };
    let r = ex.get_crash_reason(os, any_cpu());
    if linux {
        match r {
            CrashReason::LinuxGeneral(sig, f) => assert!(sig as u32 == code && f == flags),
            CrashReason::LinuxSigsegv(k) => assert!(code == 11 && k as u32 == flags),
            CrashReason::LinuxSigbus(k) => assert!(code == 7 && k as u32 == flags),
            CrashReason::LinuxSigill(k) => assert!(code == 4 && k as u32 == flags),
            CrashReason::LinuxSigfpe(k) => assert!(code == 8 && k as u32 == flags),
            CrashReason::LinuxSigtrap(k) => assert!(code == 5 && k as u32 == flags),
            CrashReason::LinuxSigsys(k) => assert!(code == 31 && k as u32 == flags),
            CrashReason::Unknown(c, f) => assert!(c == code && f == flags),
            _ => assert!(false),
        }
        kani::cover!(code == 11 && flags == 1, "SIGSEGV / SEGV_MAPERR");
    } else {
        std::mem::forget(r);
    }
}

/// F: MinidumpMiscInfo::read (base variant), RawMiscInfo::{process_id, process_create_time, process_user_time, process_kernel_time} (flag-gated accessors), MinidumpMiscInfo::process_create_time
/// I: the 24 bytes of a MINIDUMP_MISC_INFO stream (flags1 and all fields symbolic), byte order
/// B: the base misc-info variant
/// O: the process id is reported exactly when MINIDUMP_MISC1_PROCESS_ID (0x1) is set and is the stream's value; the create/user/kernel times exactly when MINIDUMP_MISC1_PROCESS_TIMES (0x2) is set; process_create_time() is present under the same flag
#[kani::proof]
#[kani::unwind(8)]
fn c14_q_misc_info_pid_and_times_gating() {
    let b: [u8; 24] = kani::any();
    let e = any_endian();
    let m = minidump::MinidumpMiscInfo::read(&b, &b, e, None).unwrap();
    let rd32 = |o: usize| {
        let x = [b[o], b[o + 1], b[o + 2], b[o + 3]];
        match e {
            Endian::Little => u32::from_le_bytes(x),
            Endian::Big => u32::from_be_bytes(x),
        }
    };
    let flags = rd32(4);
    let has_pid = flags & 1 != 0;
    let has_times = flags & 2 != 0;
    assert!(m.raw.process_id().copied() == if has_pid { Some(rd32(8)) } else { None });
    assert!(m.raw.process_create_time().copied() == if has_times { Some(rd32(12)) } else { None });
    assert!(m.raw.process_user_time().copied() == if has_times { Some(rd32(16)) } else { None });
    assert!(m.raw.process_kernel_time().copied() == if has_times { Some(rd32(20)) } else { None });
    assert!(m.process_create_time().is_some() == has_times);
    kani::cover!(has_pid && !has_times, "pid without times");
    std::mem::forget(m);
}

/// Reachability witness.
#[kani::proof]
#[kani::unwind(18)]
fn c14_w_crash_address_reachable() {
    let bytes: [u8; 168] = kani::any();
    let ex = MinidumpException::read(&bytes, &bytes, Endian::Little, None).unwrap();
    let a = ex.get_crash_address(Os::Windows, Cpu::X86);
    assert!(a <= u32::MAX as u64);
    assert!(false);
}

// ---------------------------------------------------------------- Windows error-code decoding with the two giant tables stubbed
use minidump_common::errors as werr;

/// Call log of the table stubs: (table, argument, answer) for up to 4 calls.
pub static mut TBL_CALLS: [(u8, u64, bool); 4] = [(0, 0, false); 4];
pub static mut TBL_N: usize = 0;
fn tbl_log(t: u8, n: u64) -> bool {
    let a: bool = kani::any();
    unsafe {
        if TBL_N < 4 {
            TBL_CALLS[TBL_N] = (t, n, a);
        }
        TBL_N += 1;
    }
    a
}
/// Stand-in for the derive-generated `<WinErrorWindows as FromPrimitive>::from_u64` (≈ 3000 arms): answers
/// "a member" / "not a member" nondeterministically and records the value that was looked up.
pub fn stub_winerror_from_u64(n: u64) -> Option<werr::WinErrorWindows> {
    if tbl_log(1, n) { Some(werr::WinErrorWindows::ERROR_SUCCESS) } else { None }
}
/// Same for `<NtStatusWindows as FromPrimitive>::from_u64`.
pub fn stub_ntstatus_from_u64(n: u64) -> Option<werr::NtStatusWindows> {
    if tbl_log(2, n) { Some(werr::NtStatusWindows::STATUS_SUCCESS) } else { None }
}

/// F: CrashReason::from_windows_error, CrashReason::from_windows_error_with_facility, WinErrorFacilityWindows::from_u32 (real)
/// I: every 32-bit error code; every membership answer of the two tables
/// B: one code
/// A: the WinError and NTSTATUS membership tables (`FromPrimitive::from_u64` of two enums with thousands of variants) replaced by stubs that answer member / not a member nondeterministically and record the value looked up
/// O: decoding order and bit fields as documented: the whole code is looked up as a WinError first, then as an NTSTATUS; only then, and only if one of the four severity bits 28..31 is set, bits 16..27 (12 bits) are looked up as a facility and bits 0..15 as a WinError; anything else is WindowsUnknown(code) carrying the code unchanged; never panics
#[kani::proof]
#[kani::unwind(6)]
#[kani::stub(<minidump_common::errors::WinErrorWindows as num_traits::FromPrimitive>::from_u64, stub_winerror_from_u64)]
#[kani::stub(<minidump_common::errors::NtStatusWindows as num_traits::FromPrimitive>::from_u64, stub_ntstatus_from_u64)]
fn c14_q_windows_error_code_decoding() {
    decoding(kani::any());
}

/// F: as c14_q_windows_error_code_decoding
/// I: the upper 16 bits of the error code (severity, facility); the error field is 0 (ERROR_SUCCESS, a member of the real WinError table)
/// B: one code
/// A: as above
/// O: as above. (Separate harness so that a counterexample also reproduces natively, where the real tables answer: with an arbitrary error field the real WinError lookup usually says "not a member" and hides a wrong facility decode.)
#[kani::proof]
#[kani::unwind(6)]
#[kani::stub(<minidump_common::errors::WinErrorWindows as num_traits::FromPrimitive>::from_u64, stub_winerror_from_u64)]
#[kani::stub(<minidump_common::errors::NtStatusWindows as num_traits::FromPrimitive>::from_u64, stub_ntstatus_from_u64)]
fn c14_q_windows_error_code_decoding_known_error() {
    let hi: u16 = kani::any();
    decoding((hi as u32) << 16);
}

fn decoding(code: u32) {
    unsafe {
        TBL_N = 0;
    }
    let r = CrashReason::from_windows_error(code);
    let n = unsafe { TBL_N };
    let c = unsafe { TBL_CALLS };
    if n == 0 {
        // native replay of a counterexample: stubs are not active there, the real tables answered; compare with the
        // documented decoding order computed from the real membership functions (unreachable in the solver run)
        use num_traits::FromPrimitive;
        let want = if let Some(e) = werr::WinErrorWindows::from_u32(code) {
            CrashReason::WindowsWinError(e)
        } else if let Some(s) = werr::NtStatusWindows::from_u32(code) {
            CrashReason::WindowsNtStatus(s)
        } else {
            match (code & 0xf000_0000 != 0, werr::WinErrorFacilityWindows::from_u32((code >> 16) & 0xfff), werr::WinErrorWindows::from_u32(code & 0xffff)) {
                (true, Some(f), Some(e)) => CrashReason::WindowsWinErrorWithFacility(f, e),
                _ => CrashReason::WindowsUnknown(code),
            }
        };
        assert!(r == want);
        return;
    }
    assert!(n >= 1 && n <= 3);
    // first question: the whole code as a WinError
    assert!(c[0].0 == 1 && c[0].1 == code as u64);
    let facility = (code >> 16) & 0xfff;
    let severity = code & 0xf000_0000 != 0;
    match r {
        CrashReason::WindowsWinError(_) => assert!(n == 1 && c[0].2),
        CrashReason::WindowsNtStatus(_) => assert!(n == 2 && !c[0].2 && c[1].0 == 2 && c[1].1 == code as u64 && c[1].2),
        CrashReason::WindowsWinErrorWithFacility(f, _) => {
            assert!(n == 3 && !c[0].2 && !c[1].2);
            assert!(severity && f as u32 == facility);
            assert!(c[2].0 == 1 && c[2].1 == (code & 0xffff) as u64 && c[2].2);
        }
        CrashReason::WindowsUnknown(x) => {
            assert!(x == code);
            assert!(!c[0].2 && n >= 2 && !c[1].2);
            // not decoded as facility + error although both lookups would have succeeded: impossible
            let known_facility = <werr::WinErrorFacilityWindows as num_traits::FromPrimitive>::from_u32(facility).is_some();
            if n == 3 {
                assert!(severity && known_facility && c[2].0 == 1 && c[2].1 == (code & 0xffff) as u64 && !c[2].2);
            } else {
                assert!(!severity || !known_facility);
            }
        }
        _ => assert!(false),
    }
    kani::cover!(matches!(r, CrashReason::WindowsWinErrorWithFacility(..)), "a facility code is decoded");
    kani::cover!(matches!(r, CrashReason::WindowsUnknown(_)) && n == 3, "known facility, unknown error");
}

/// F: MinidumpBreakpadInfo::read (validity bits gating the dump-writer and requesting thread ids)
/// I: the 12 bytes of the stream, both byte orders
/// B: one record
/// O: dump_thread_id is reported iff validity bit 0 is set, requesting_thread_id iff bit 1 is set, each with the record's own value (the requesting thread chosen by the processor when there is no exception stream comes from here)
#[kani::proof]
#[kani::unwind(6)]
fn c14_q_breakpad_info_thread_ids() {
    let bytes: [u8; 12] = kani::any();
    let e = any_endian();
    let rd = |o: usize| {
        let b = [bytes[o], bytes[o + 1], bytes[o + 2], bytes[o + 3]];
        match e {
            Endian::Little => u32::from_le_bytes(b),
            Endian::Big => u32::from_be_bytes(b),
        }
    };
    let r = minidump::MinidumpBreakpadInfo::read(&bytes, &bytes, e, None).unwrap();
    let v = rd(0);
    assert!(r.dump_thread_id == if v & 1 != 0 { Some(rd(4)) } else { None });
    assert!(r.requesting_thread_id == if v & 2 != 0 { Some(rd(8)) } else { None });
    kani::cover!(v & 3 == 2, "only the requesting thread id is valid");
}

#[path = "../playback/c14_exception.rs"]
mod playback;
