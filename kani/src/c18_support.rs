//! C18 — register access by name: specification-side helpers.
//! The slot readers below read the raw struct fields following the architecture
//! register numbering; they never go through the name-based API under test.
use minidump::format::*;
use minidump::verif_set::VecSet;
use minidump::{CpuContext, MinidumpContext, MinidumpContextValidity, MinidumpRawContext};

macro_rules! zeroed {
    ($t:ty) => {
        unsafe { std::mem::zeroed::<$t>() }
    };
}

pub fn any_x86() -> CONTEXT_X86 {
    let mut c = zeroed!(CONTEXT_X86);
    c.eip = kani::any();
    c.esp = kani::any();
    c.ebp = kani::any();
    c.ebx = kani::any();
    c.esi = kani::any();
    c.edi = kani::any();
    c.eax = kani::any();
    c.ecx = kani::any();
    c.edx = kani::any();
    c.eflags = kani::any();
    c
}
pub fn slots_x86(c: &CONTEXT_X86) -> [u64; 10] {
    [c.eip as u64, c.esp as u64, c.ebp as u64, c.ebx as u64, c.esi as u64, c.edi as u64, c.eax as u64, c.ecx as u64, c.edx as u64, c.eflags as u64]
}
pub fn wrap_x86(c: CONTEXT_X86) -> MinidumpRawContext {
    MinidumpRawContext::X86(c)
}

pub fn any_amd64() -> CONTEXT_AMD64 {
    let mut c = zeroed!(CONTEXT_AMD64);
    c.rax = kani::any();
    c.rdx = kani::any();
    c.rcx = kani::any();
    c.rbx = kani::any();
    c.rsi = kani::any();
    c.rdi = kani::any();
    c.rbp = kani::any();
    c.rsp = kani::any();
    c.r8 = kani::any();
    c.r9 = kani::any();
    c.r10 = kani::any();
    c.r11 = kani::any();
    c.r12 = kani::any();
    c.r13 = kani::any();
    c.r14 = kani::any();
    c.r15 = kani::any();
    c.rip = kani::any();
    c
}
pub fn slots_amd64(c: &CONTEXT_AMD64) -> [u64; 17] {
    [c.rax, c.rdx, c.rcx, c.rbx, c.rsi, c.rdi, c.rbp, c.rsp, c.r8, c.r9, c.r10, c.r11, c.r12, c.r13, c.r14, c.r15, c.rip]
}
pub fn wrap_amd64(c: CONTEXT_AMD64) -> MinidumpRawContext {
    MinidumpRawContext::Amd64(c)
}

pub fn any_arm() -> CONTEXT_ARM {
    let mut c = zeroed!(CONTEXT_ARM);
    c.iregs = kani::any();
    c
}
pub fn slots_arm(c: &CONTEXT_ARM) -> [u64; 16] {
    let mut s = [0u64; 16];
    let mut i = 0;
    while i < 16 {
        s[i] = c.iregs[i] as u64;
        i += 1;
    }
    s
}
pub fn wrap_arm(c: CONTEXT_ARM) -> MinidumpRawContext {
    MinidumpRawContext::Arm(c)
}

pub fn any_arm64() -> CONTEXT_ARM64 {
    let mut c = zeroed!(CONTEXT_ARM64);
    c.iregs = kani::any();
    c.sp = kani::any();
    c.pc = kani::any();
    c
}
pub fn slots_arm64(c: &CONTEXT_ARM64) -> [u64; 33] {
    let mut s = [0u64; 33];
    let mut i = 0;
    while i < 31 {
        s[i] = c.iregs[i];
        i += 1;
    }
    s[31] = c.sp;
    s[32] = c.pc;
    s
}
pub fn wrap_arm64(c: CONTEXT_ARM64) -> MinidumpRawContext {
    MinidumpRawContext::Arm64(c)
}

pub fn any_arm64_old() -> CONTEXT_ARM64_OLD {
    let mut c = zeroed!(CONTEXT_ARM64_OLD);
    c.iregs = kani::any();
    c.sp = kani::any();
    c.pc = kani::any();
    c
}
pub fn slots_arm64_old(c: &CONTEXT_ARM64_OLD) -> [u64; 33] {
    let mut s = [0u64; 33];
    let mut i = 0;
    while i < 31 {
        s[i] = c.iregs[i];
        i += 1;
    }
    s[31] = c.sp;
    s[32] = c.pc;
    s
}
pub fn wrap_arm64_old(c: CONTEXT_ARM64_OLD) -> MinidumpRawContext {
    MinidumpRawContext::OldArm64(c)
}

pub fn any_ppc() -> CONTEXT_PPC {
    let mut c = zeroed!(CONTEXT_PPC);
    c.srr0 = kani::any();
    c.srr1 = kani::any();
    c.gpr = kani::any();
    c.cr = kani::any();
    c.xer = kani::any();
    c.lr = kani::any();
    c.ctr = kani::any();
    c.mq = kani::any();
    c.vrsave = kani::any();
    c
}
pub fn slots_ppc(c: &CONTEXT_PPC) -> [u64; 40] {
    let mut s = [0u64; 40];
    s[0] = c.srr0 as u64;
    s[1] = c.srr1 as u64;
    let mut i = 0;
    while i < 32 {
        s[2 + i] = c.gpr[i] as u64;
        i += 1;
    }
    s[34] = c.cr as u64;
    s[35] = c.xer as u64;
    s[36] = c.lr as u64;
    s[37] = c.ctr as u64;
    s[38] = c.mq as u64;
    s[39] = c.vrsave as u64;
    s
}
pub fn wrap_ppc(c: CONTEXT_PPC) -> MinidumpRawContext {
    MinidumpRawContext::Ppc(c)
}

pub fn any_ppc64() -> CONTEXT_PPC64 {
    let mut c = zeroed!(CONTEXT_PPC64);
    c.srr0 = kani::any();
    c.srr1 = kani::any();
    c.gpr = kani::any();
    c.cr = kani::any();
    c.xer = kani::any();
    c.lr = kani::any();
    c.ctr = kani::any();
    c.vrsave = kani::any();
    c
}
pub fn slots_ppc64(c: &CONTEXT_PPC64) -> [u64; 39] {
    let mut s = [0u64; 39];
    s[0] = c.srr0;
    s[1] = c.srr1;
    let mut i = 0;
    while i < 32 {
        s[2 + i] = c.gpr[i];
        i += 1;
    }
    s[34] = c.cr;
    s[35] = c.xer;
    s[36] = c.lr;
    s[37] = c.ctr;
    s[38] = c.vrsave;
    s
}
pub fn wrap_ppc64(c: CONTEXT_PPC64) -> MinidumpRawContext {
    MinidumpRawContext::Ppc64(c)
}

pub fn any_mips() -> CONTEXT_MIPS {
    let mut c = zeroed!(CONTEXT_MIPS);
    c.iregs = kani::any();
    c.epc = kani::any();
    c
}
pub fn slots_mips(c: &CONTEXT_MIPS) -> [u64; 33] {
    let mut s = [0u64; 33];
    let mut i = 0;
    while i < 32 {
        s[i] = c.iregs[i];
        i += 1;
    }
    s[32] = c.epc;
    s
}
pub fn wrap_mips(c: CONTEXT_MIPS) -> MinidumpRawContext {
    MinidumpRawContext::Mips(c)
}

pub fn any_sparc() -> CONTEXT_SPARC {
    let mut c = zeroed!(CONTEXT_SPARC);
    c.g_r = kani::any();
    c.ccr = kani::any();
    c.pc = kani::any();
    c.npc = kani::any();
    c.y = kani::any();
    c.asi = kani::any();
    c.fprs = kani::any();
    c
}
pub fn slots_sparc(c: &CONTEXT_SPARC) -> [u64; 38] {
    let mut s = [0u64; 38];
    let mut i = 0;
    while i < 32 {
        s[i] = c.g_r[i];
        i += 1;
    }
    s[32] = c.ccr;
    s[33] = c.pc;
    s[34] = c.npc;
    s[35] = c.y;
    s[36] = c.asi;
    s[37] = c.fprs;
    s
}
pub fn wrap_sparc(c: CONTEXT_SPARC) -> MinidumpRawContext {
    MinidumpRawContext::Sparc(c)
}

fn set1(n: &'static str) -> MinidumpContextValidity {
    let mut s = VecSet::new();
    s.insert(n);
    MinidumpContextValidity::Some(s)
}

/// One register name against the architecture table: slot, frame condition, memoize, validity All.
/// (No heap objects: several names can share a harness.)
pub fn check_name<C, const K: usize>(
    c: &mut C,
    slots: fn(&C) -> [u64; K],
    name: &'static str,
    slot: usize,
    canon: &'static str,
    strong: bool,
    v: C::Register,
) where
    C: CpuContext + Clone,
    C::Register: Into<u64> + Copy + PartialEq,
{
    let before = slots(c);
    // reading through the name sees the architecture slot
    assert!(c.get_register_always(name).into() == before[slot]);
    // writing through the name lands in that slot and nowhere else
    assert!(c.set_register(name, v).is_some());
    let after = slots(c);
    let mut i = 0;
    while i < K {
        if i == slot {
            assert!(after[i] == v.into());
        } else {
            assert!(after[i] == before[i]);
        }
        i += 1;
    }
    assert!(c.get_register_always(name) == v);
    if strong {
        assert!(c.memoize_register(name) == Some(canon));
        let all = MinidumpContextValidity::All;
        assert!(c.get_register(name, &all) == Some(v));
    }
}

/// Validity sets for one name: {} / {canonical} / {name} / {unrelated}, and the type-erased dispatcher.
pub fn check_name_validity<C>(
    c: &C,
    wrap: fn(C) -> MinidumpRawContext,
    name: &'static str,
    canon: &'static str,
    other: &'static str,
) where
    C: CpuContext + Clone,
    C::Register: Into<u64> + Copy + PartialEq,
{
    let v = c.get_register_always(name);
    let empty = MinidumpContextValidity::Some(VecSet::new());
    assert!(c.get_register(name, &empty).is_none());
    let vc = set1(canon);
    assert!(c.get_register(name, &vc) == Some(v));
    assert!(c.get_register(canon, &vc) == Some(v));
    let vn = set1(name);
    assert!(c.get_register(name, &vn) == Some(v));
    assert!(c.get_register(canon, &vn) == Some(v));
    let vo = set1(other);
    assert!(c.get_register(name, &vo).is_none());
    // the type-erased dispatcher agrees
    let mc = MinidumpContext { raw: wrap(c.clone()), valid: vc };
    assert!(mc.get_register(name) == Some(v.into()));
    assert!(mc.get_register(other).is_none());
    assert!(mc.get_register_always(name) == v.into());
    std::mem::forget(mc);
    std::mem::forget(vn);
    std::mem::forget(vo);
    std::mem::forget(empty);
}

fn spec_index<const N: usize>(spec: &[(&'static str, usize); N], name: &str) -> usize {
    let mut j = 0;
    let mut r = N;
    while j < N {
        if spec[j].0 == name {
            r = j;
        }
        j += 1;
    }
    r
}

pub fn check_table<C, const K: usize, const N: usize>(
    c: &C,
    slots: fn(&C) -> [u64; K],
    wrap: fn(C) -> MinidumpRawContext,
    spec: &[(&'static str, usize); N],
    sp: &'static str,
    ip: &'static str,
    reg_size: usize,
) where
    C: CpuContext + Clone,
    C::Register: Into<u64> + Copy + PartialEq,
{
    let s = slots(c);
    assert!(C::REGISTERS.len() == N);
    let mut seen = [false; N];
    let mut i = 0;
    while i < N {
        let j = spec_index(spec, C::REGISTERS[i]);
        assert!(j < N);
        assert!(!seen[j]);
        seen[j] = true;
        i += 1;
    }
    assert!(c.stack_pointer_register_name() == sp);
    assert!(c.instruction_pointer_register_name() == ip);
    let jsp = spec_index(spec, sp);
    let jip = spec_index(spec, ip);
    assert!(jsp < N && jip < N);
    let mc = MinidumpContext { raw: wrap(c.clone()), valid: MinidumpContextValidity::All };
    assert!(mc.get_stack_pointer() == s[spec[jsp].1]);
    assert!(mc.get_instruction_pointer() == s[spec[jip].1]);
    assert!(c.get_register_always(sp).into() == s[spec[jsp].1]);
    assert!(c.get_register_always(ip).into() == s[spec[jip].1]);
    assert!(mc.register_size() == reg_size);
    assert!(mc.general_purpose_registers().len() == N);
    std::mem::forget(mc);
}

/// The stack-pointer / instruction-pointer names of a context type: they name the architecture's slots, agree with the
/// dedicated accessors, and are canonical (memoizable to themselves, i.e. usable in validity sets and present in REGISTERS).
pub fn check_sp_ip<C, const K: usize>(c: &C, slots: fn(&C) -> [u64; K], wrap: fn(C) -> MinidumpRawContext, sp: &'static str, sp_slot: usize, ip: &'static str, ip_slot: usize)
where
    C: CpuContext + Clone,
    C::Register: Into<u64> + Copy + PartialEq,
{
    let s = slots(c);
    assert!(c.stack_pointer_register_name() == sp);
    assert!(c.instruction_pointer_register_name() == ip);
    assert!(c.memoize_register(c.stack_pointer_register_name()) == Some(sp));
    assert!(c.memoize_register(c.instruction_pointer_register_name()) == Some(ip));
    assert!(c.get_register_always(sp).into() == s[sp_slot]);
    assert!(c.get_register_always(ip).into() == s[ip_slot]);
    let mc = MinidumpContext { raw: wrap(c.clone()), valid: MinidumpContextValidity::All };
    assert!(mc.get_stack_pointer() == s[sp_slot]);
    assert!(mc.get_instruction_pointer() == s[ip_slot]);
    // the type-erased dispatcher hands out this type's own register list
    let g = mc.general_purpose_registers();
    assert!(g.len() == C::REGISTERS.len() && g.as_ptr() == C::REGISTERS.as_ptr());
    std::mem::forget(mc);
}

/// slot index of every entry of `C::REGISTERS`, looked up by name in the spec (concrete strings only)
pub fn slots_of_registers<C: CpuContext, const N: usize>(spec: &[(&'static str, usize); N]) -> [usize; N] {
    let mut out = [usize::MAX; N];
    let mut i = 0;
    while i < N {
        let j = spec_index(spec, C::REGISTERS[i]);
        assert!(j < N);
        out[i] = spec[j].1;
        i += 1;
    }
    out
}

/// Which entry of `C::REGISTERS` is `name`? (identity of the `&'static str`, no byte comparison)
fn reg_index<C: CpuContext, const N: usize>(name: &'static str) -> usize {
    let mut j = 0;
    let mut hit = N;
    while j < N {
        let r = C::REGISTERS[j];
        if std::ptr::eq(name.as_ptr(), r.as_ptr()) && name.len() == r.len() {
            hit = j;
        }
        j += 1;
    }
    hit
}

pub fn step_ctx<C, const K: usize, const N: usize>(
    item: Option<(&'static str, C::Register)>,
    slot_of: &[usize; N],
    s: &[u64; K],
    seen: &mut [bool; N],
) where
    C: CpuContext,
    C::Register: Into<u64> + Copy,
{
    assert!(item.is_some());
    let (name, val) = item.unwrap();
    let j = reg_index::<C, N>(name);
    assert!(j < N);
    assert!(!seen[j]);
    seen[j] = true;
    assert!(val.into() == s[slot_of[j]]);
}

pub fn step_mc<C, const K: usize, const N: usize>(
    item: Option<(&'static str, u64)>,
    slot_of: &[usize; N],
    s: &[u64; K],
    seen: &mut [bool; N],
) where
    C: CpuContext,
{
    assert!(item.is_some());
    let (name, val) = item.unwrap();
    let j = reg_index::<C, N>(name);
    assert!(j < N);
    assert!(!seen[j]);
    seen[j] = true;
    assert!(val == s[slot_of[j]]);
}

pub fn check_valid_ctx<C>(c: &C, sp: &'static str)
where
    C: CpuContext,
    C::Register: Into<u64> + Copy + PartialEq,
{
    let empty = MinidumpContextValidity::Some(VecSet::new());
    assert!(c.valid_registers(&empty).next().is_none());
    let one = set1(sp);
    {
        let mut it = c.valid_registers(&one);
        let first = it.next();
        assert!(first.is_some());
        let (nm, vl) = first.unwrap();
        assert!(nm == sp && vl == c.get_register_always(sp));
        assert!(it.next().is_none());
    }
    std::mem::forget(empty);
    std::mem::forget(one);
}

pub fn check_valid_mc<C>(c: &C, wrap: fn(C) -> MinidumpRawContext, sp: &'static str)
where
    C: CpuContext + Clone,
    C::Register: Into<u64> + Copy + PartialEq,
{
    let mc0 = MinidumpContext { raw: wrap(c.clone()), valid: MinidumpContextValidity::Some(VecSet::new()) };
    assert!(mc0.valid_registers().next().is_none());
    std::mem::forget(mc0);
    let mc1 = MinidumpContext { raw: wrap(c.clone()), valid: set1(sp) };
    {
        let mut it = mc1.valid_registers();
        let first = it.next();
        assert!(first.is_some());
        let (nm, vl) = first.unwrap();
        assert!(nm == sp && vl == c.get_register_always(sp).into());
        assert!(it.next().is_none());
    }
    std::mem::forget(mc1);
}

/// A validity set that holds an *alias* spelling (as the ARM/ARM64 unwinders insert: "r13", "x29", ...)
/// makes exactly the canonical register show up in the enumerations and in get_register.
pub fn check_valid_alias<C>(c: &C, wrap: fn(C) -> MinidumpRawContext, alias: &'static str, canon: &'static str)
where
    C: CpuContext + Clone,
    C::Register: Into<u64> + Copy + PartialEq,
{
    let v = c.get_register_always(canon);
    let mc = MinidumpContext { raw: wrap(c.clone()), valid: set1(alias) };
    assert!(mc.get_register(canon) == Some(v.into()));
    assert!(mc.get_register(alias) == Some(v.into()));
    {
        let mut it = mc.valid_registers();
        let first = it.next();
        assert!(first.is_some());
        let (nm, vl) = first.unwrap();
        assert!(nm == canon && vl == v.into());
        assert!(it.next().is_none());
    }
    std::mem::forget(mc);
}

pub fn any_name_bytes<const L: usize>() -> [u8; L] {
    let buf: [u8; L] = kani::any();
    let mut i = 0;
    while i < L {
        let b = buf[i];
        kani::assume(b.is_ascii_alphanumeric() || b == b'_' || b == b'$' || b == b'.');
        i += 1;
    }
    buf
}

pub fn check_unknown<C>(c: &mut C, wrap: fn(C) -> MinidumpRawContext, s: &str, v: C::Register)
where
    C: CpuContext + Clone,
    C::Register: Into<u64> + Copy + PartialEq,
{
    let all = MinidumpContextValidity::All;
    assert!(c.memoize_register(s).is_none());
    assert!(c.get_register(s, &all).is_none());
    assert!(c.set_register(s, v).is_none());
    let empty = MinidumpContextValidity::Some(VecSet::new());
    assert!(c.get_register(s, &empty).is_none());
    let mc = MinidumpContext { raw: wrap(c.clone()), valid: all };
    assert!(mc.get_register(s).is_none());
    std::mem::forget(mc);
    std::mem::forget(empty);
}
