//! C09 — symbol-file numeric field parsers (hex_str::<u64>, hex_str::<u32>, decimal_u32).
use breakpad_symbols::verif::parser as hook;

fn hexval(b: u8) -> Option<u64> {
    match b {
        b'0'..=b'9' => Some((b - b'0') as u64),
        b'a'..=b'f' => Some((b - b'a') as u64 + 10),
        b'A'..=b'F' => Some((b - b'A') as u64 + 10),
        _ => None,
    }
}

/// reference: longest run of hex digits, capped at `max` digits; value = big-endian fold
fn ref_hex(input: &[u8], max: usize) -> Option<(usize, u64)> {
    let mut k = 0;
    let mut v: u64 = 0;
    while k < input.len() && k < max {
        match hexval(input[k]) {
            Some(d) => v = (v << 4) | d,
            None => break,
        }
        k += 1;
    }
    if k == 0 {
        None
    } else {
        Some((k, v))
    }
}

/// F: breakpad_symbols::sym_file::parser::hex_str::<u64>
/// I: 18 symbolic bytes, length 0..=18
/// B: fields up to 18 bytes (two more than the 16-digit cap)
/// O: no panic/overflow; consumes exactly min(run of hex digits, 16) bytes; value equals the reference fold; zero digits is an error; a 17th digit is left in the remainder
#[kani::proof]
#[kani::unwind(20)]
fn c09_q_hex_u64() {
    let b: [u8; 18] = kani::any();
    let len: usize = kani::any();
    kani::assume(len <= 18);
    let got = hook::hex_u64(&b[..len]);
    let want = ref_hex(&b[..len], 16);
    kani::cover!(matches!(got, Some((16, _))) && len > 16, "16 digits consumed, more input left");
    assert!(got == want);
}

/// F: breakpad_symbols::sym_file::parser::hex_str::<u32>
/// I: 10 symbolic bytes, length 0..=10
/// B: fields up to 10 bytes (two more than the 8-digit cap)
/// O: as for u64 with an 8-digit cap
#[kani::proof]
#[kani::unwind(12)]
fn c09_q_hex_u32() {
    let b: [u8; 10] = kani::any();
    let len: usize = kani::any();
    kani::assume(len <= 10);
    let got = hook::hex_u32(&b[..len]);
    let want = ref_hex(&b[..len], 8).map(|(k, v)| (k, v as u32));
    kani::cover!(matches!(got, Some((8, _))) && len > 8, "8 digits consumed, more input left");
    assert!(got == want);
}

/// F: breakpad_symbols::sym_file::parser::decimal_u32
/// I: 12 symbolic bytes, length 0..=12
/// B: fields up to 12 bytes (two more than the 10-digit cap)
/// O: no panic/overflow; Ok iff 1..=10 leading digits whose value fits in u32 (an 11th digit is left in the remainder); value equals the reference fold; TooLarge/zero digits are errors
#[kani::proof]
#[kani::unwind(14)]
fn c09_q_decimal_u32() {
    let b: [u8; 12] = kani::any();
    let len: usize = kani::any();
    kani::assume(len <= 12);
    let got = hook::decimal_u32(&b[..len]);
    let mut k = 0;
    let mut v: u64 = 0;
    while k < len && k < 10 {
        if b[k].is_ascii_digit() {
            v = v * 10 + (b[k] - b'0') as u64;
        } else {
            break;
        }
        k += 1;
    }
    let want = if k == 0 || v > u32::MAX as u64 { None } else { Some((k, v as u32)) };
    kani::cover!(got == Some((10, u32::MAX)), "u32::MAX parsed");
    kani::cover!(got.is_none() && k == 10, "10 digits too large rejected");
    assert!(got == want);
}

/// Reachability witness.
#[kani::proof]
#[kani::unwind(20)]
fn c09_w_hex_success_reachable() {
    let b: [u8; 18] = kani::any();
    if hook::hex_u64(&b).is_some() {
        assert!(false);
    }
}

#[path = "../playback/c09_numeric.rs"]
mod playback;
