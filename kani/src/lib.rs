//! Proof harnesses (Kani / CBMC) over the real rust-minidump code in /repo.
//!
//! Naming convention, parsed by /verif/check:
//!   `cNN_q_<name>`  harness of property CNN, run in the quick and thorough tiers
//!   `cNN_t_<name>`  harness of property CNN, thorough tier only
//!   `cNN_w_<name>`  reachability witness ("mutant twin"): ends in `assert!(false)`
//!                   on the main path and MUST come back FAILED; a passing witness
//!                   means the harness family is vacuous.
//! Every harness documents: F (functions encoded), I (symbolic inputs), B (bounds),
//! A (assumptions) in its doc comment; /verif/check copies them into the evidence.
#![allow(dead_code, unused_imports, clippy::all)]

pub mod common;

#[cfg(kani)]
mod c07_stack_win;

/// Trivial harness used by `./check --setup` to warm the dependency build.
#[cfg(kani)]
#[kani::proof]
fn c00_q_smoke() {
    let x: u8 = kani::any();
    assert!(x as u32 + 1 > 0);
}
