//! Proof harnesses (Kani / CBMC) over the real rust-minidump code in /repo.
//!
//! Naming convention, parsed by /verif/check:
//!   `cNN_q_<name>`  harness of property CNN, run in the quick and thorough tiers
//!   `cNN_t_<name>`  harness of property CNN, thorough tier only
//!   `cNN_w_<name>`  reachability witness ("mutant twin"): ends in `assert!(false)`
//!                   on the main path and MUST come back FAILED; a passing witness
//!                   means the harness family is vacuous.
//! Every harness documents: F (functions encoded), I (symbolic inputs), B (bounds),
//! A (assumptions) in its doc comment; /verif/check copies them into the evidence.
#![allow(dead_code, unused_imports, clippy::all)]
// needed to name the allocator parameter of std HashMap in a Kani stub signature (c11_symbolication.rs)
#![cfg_attr(kani, feature(allocator_api))]

pub mod common;

#[cfg(kani)]
mod c01_read_total;
#[cfg(kani)]
mod c01_streams;
#[cfg(kani)]
mod c01_linux_text;
#[cfg(kani)]
mod c07_stack_win;

/// Trivial harness used by `./check --setup` to warm the dependency build.
#[cfg(kani)]
#[kani::proof]
fn c00_q_smoke() {
    let x: u8 = kani::any();
    assert!(x as u32 + 1 > 0);
}
#[cfg(kani)]
mod c18_support;
#[cfg(kani)]
mod c18_gen;
#[cfg(kani)]
mod c02_support;
#[cfg(kani)]
mod c02_gen;
#[cfg(kani)]
mod c06_support;
#[cfg(kani)]
mod c06_gen;
#[cfg(kani)]
mod c06_rules;
#[cfg(kani)]
mod c09_numeric;
#[cfg(kani)]
mod c17_paths;
#[cfg(kani)]
mod c11_symbolication;
#[cfg(kani)]
mod c14_exception;
#[cfg(kani)]
mod c19_bitflip;
#[cfg(kani)]
mod c08_rangemap;
#[cfg(kani)]
mod c04_frame_pointer;
#[cfg(kani)]
mod c02_records;
#[cfg(kani)]
mod c04_cfi_walker;
