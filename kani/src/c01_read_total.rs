//! C01 — reading a minidump is total: reader kernels.
use crate::common::{any_endian, stub_format, stub_from_utf8, stub_utf16_decode, NullSink};
use minidump::format as md;
use minidump::system_info::{Cpu, Os};
use minidump::verif as hook;
use minidump::{Endian, MinidumpStream};

// ---------------------------------------------------------------- location_slice
/// F: minidump::location_slice
/// I: buffer length 0..=24, rva and data_size full u32
/// B: buffer <= 24 bytes (the arithmetic does not depend on the contents)
/// O: never panics; Ok(s) iff rva+size <= len, and then s is exactly bytes[rva..rva+size]
#[kani::proof]
#[kani::unwind(4)]
fn c01_q_location_slice() {
    let bytes = [0u8; 24];
    let len: usize = kani::any();
    kani::assume(len <= 24);
    let loc = md::MINIDUMP_LOCATION_DESCRIPTOR { data_size: kani::any(), rva: kani::any() };
    let r = hook::location_slice(&bytes[..len], &loc);
    let end = loc.rva as u64 + loc.data_size as u64;
    kani::cover!(r.is_ok() && loc.data_size > 0, "non-empty slice returned");
    match r {
        Ok(s) => {
            assert!(end <= len as u64);
            assert!(s.len() == loc.data_size as usize);
            assert!(s.as_ptr() == bytes[loc.rva as usize..].as_ptr());
        }
        Err(_) => assert!(end > len as u64),
    }
}

// ---------------------------------------------------------------- ensure_count_in_bound
/// F: minidump::ensure_count_in_bound
/// I: buffer length 0..=64, count / entry size / offset: full usize
/// B: buffer <= 64 bytes
/// O: never panics; Ok((n, e)) iff n*size+offset does not overflow and <= len; e is that sum
#[kani::proof]
#[kani::unwind(4)]
#[kani::stub(alloc::fmt::format, stub_format)]
fn c01_q_ensure_count_in_bound() {
    let bytes = [0u8; 64];
    let len: usize = kani::any();
    kani::assume(len <= 64);
    let n: usize = kani::any();
    let sz: usize = kani::any();
    let off: usize = kani::any();
    let r = hook::ensure_count_in_bound(&bytes[..len], n, sz, off);
    let exact = (n as u128) * (sz as u128) + off as u128;
    kani::cover!(r.is_ok() && n > 1 && sz > 1, "accepted a real count");
    match r {
        Ok((cn, e)) => {
            assert!(cn == n);
            assert!(exact <= len as u128);
            assert!(e as u128 == exact);
        }
        Err(e) => {
            assert!(exact > len as u128);
            std::mem::forget(e);
        }
    }
}

// ---------------------------------------------------------------- list stream headers
macro_rules! stream_list_harness {
    ($name:ident, $t:ty, $sz:expr, $cap:expr, $tier:literal) => {
        /// F: minidump::read_stream_list::<T> (count header, 0-or-4 padding rule, with_capacity, element loop), ensure_count_in_bound
        /// I: every byte of the stream, stream length 0..=CAP, both byte orders
        /// B: streams of at most CAP bytes (at most 2 elements)
        /// O: never panics; Ok(v) => 4 + v.len()*size <= len, padding is exactly 0 or 4, and the allocation v.capacity()*size is backed by the stream length
        #[kani::proof]
        #[kani::unwind(5)]
        #[kani::stub(alloc::fmt::format, stub_format)]
        fn $name() {
            const SZ: usize = $sz;
            const CAP: usize = $cap;
            let bytes: [u8; CAP] = kani::any();
            let len: usize = kani::any();
            kani::assume(len <= CAP);
            let mut off = 0usize;
            let r = hook::read_stream_list::<$t>(&mut off, &bytes[..len], any_endian());
            kani::cover!(r.is_ok() && off > 4 + SZ, "two elements read");
            match r {
                Ok(v) => {
                    let used = 4 + v.len() * SZ;
                    assert!(used == len || used + 4 == len);
                    assert!(v.capacity() * SZ <= len);
                    assert!(off == len);
                    std::mem::forget(v);
                }
                Err(e) => std::mem::forget(e),
            }
        }
    };
}
stream_list_harness!(c01_q_read_stream_list_memory_descriptor, md::MINIDUMP_MEMORY_DESCRIPTOR, 16, 4 + 2 * 16 + 6, "q");
stream_list_harness!(c01_t_read_stream_list_thread, md::MINIDUMP_THREAD, 48, 4 + 2 * 48 + 6, "t");
stream_list_harness!(c01_t_read_stream_list_thread_name, md::MINIDUMP_THREAD_NAME, 12, 4 + 2 * 12 + 6, "t");

macro_rules! ex_stream_list_harness {
    ($name:ident, $t:ty, $sz:expr, $cap:expr) => {
        /// F: minidump::read_ex_stream_list::<T> (size_of_header / size_of_entry / number_of_entries validation, header padding, with_capacity, element loop)
        /// I: every byte of the stream, stream length 0..=CAP, both byte orders
        /// B: streams of at most CAP bytes (at most 1-2 elements)
        /// O: never panics (incl. offset arithmetic); Ok(v) => header + v.len()*size <= len and v.capacity()*size <= len
        #[kani::proof]
        #[kani::unwind(5)]
        #[kani::stub(alloc::fmt::format, stub_format)]
        fn $name() {
            const SZ: usize = $sz;
            const CAP: usize = $cap;
            let bytes: [u8; CAP] = kani::any();
            let len: usize = kani::any();
            kani::assume(len <= CAP);
            let mut off = 0usize;
            let r = hook::read_ex_stream_list::<$t>(&mut off, &bytes[..len], any_endian());
            kani::cover!(r.is_ok() && off >= 12 + SZ, "one element read");
            match r {
                Ok(v) => {
                    assert!(12 + v.len() * SZ <= len);
                    assert!(v.capacity() * SZ <= len);
                    assert!(off <= len);
                    std::mem::forget(v);
                }
                Err(e) => std::mem::forget(e),
            }
        }
    };
}
ex_stream_list_harness!(c01_q_read_ex_stream_list_unloaded_module, md::MINIDUMP_UNLOADED_MODULE, 24, 12 + 2 * 24 + 6);
ex_stream_list_harness!(c01_t_read_ex_stream_list_memory_info, md::MINIDUMP_MEMORY_INFO, 48, 12 + 48 + 10);
ex_stream_list_harness!(c01_t_read_ex_stream_list_thread_info, md::MINIDUMP_THREAD_INFO, 64, 12 + 64 + 10);

// ---------------------------------------------------------------- strings
/// A: core::str::from_utf8 replaced by a stub that may accept or reject any byte string (validity is not the subject)
/// F: minidump::read_string_utf8 (+ read_string_utf8_unterminated)
/// I: 8 symbolic bytes, length 0..=8, offset full usize, both byte orders
/// B: buffers <= 8 bytes
/// O: never panics; Some(s) => s lies inside the buffer, the NUL terminator was present and offset moved to just past it (<= len)
#[kani::proof]
#[kani::unwind(10)]
#[kani::stub(std::str::from_utf8, stub_from_utf8)]
fn c01_q_read_string_utf8() {
    let bytes: [u8; 8] = kani::any();
    let len: usize = kani::any();
    kani::assume(len <= 8);
    let mut off: usize = kani::any();
    let off0 = off;
    let r = hook::read_string_utf8(&mut off, &bytes[..len], any_endian());
    kani::cover!(r.map_or(false, |s| s.len() >= 2), "a 2+ byte string was read");
    if let Some(s) = r {
        assert!(off0 <= len && off <= len);
        assert!(off == off0 + 4 + s.len() + 1);
        assert!(bytes[off - 1] == 0);
    }
}

/// A: core::str::from_utf8 replaced by a stub that may accept or reject any byte string
/// F: minidump::read_cstring_utf8
/// I: 6 symbolic bytes, length 0..=6, offset full usize
/// B: buffers <= 6 bytes
/// O: never panics; Some(s) => terminator inside the buffer, s.len() == bytes consumed - 1
#[kani::proof]
#[kani::unwind(8)]
#[kani::stub(std::str::from_utf8, stub_from_utf8)]
fn c01_q_read_cstring_utf8() {
    let bytes: [u8; 6] = kani::any();
    let len: usize = kani::any();
    kani::assume(len <= 6);
    let mut off: usize = kani::any();
    let off0 = off;
    let r = hook::read_cstring_utf8(&mut off, &bytes[..len]);
    kani::cover!(r.as_ref().map_or(false, |s| s.len() >= 2), "a 2+ byte string was read");
    if let Some(s) = r {
        assert!(off0 < len && off <= len);
        assert!(s.len() + 1 == off - off0);
        assert!(bytes[off - 1] == 0);
        std::mem::forget(s);
    }
}

/// A: encoding_rs' decoder replaced by a stub that may accept or reject any byte string
/// F: minidump::read_string_utf16 (length prefix, evenness and bounds check, slice, offset update)
/// I: 8 symbolic bytes, length 0..=8, offset full usize, both byte orders
/// B: buffers <= 8 bytes (strings of at most 2 UTF-16 code units)
/// O: never panics (offset + size arithmetic, slice bounds); Some(_) => the declared byte length is even and fits in the buffer, offset advanced by 4 + length
#[kani::proof]
#[kani::unwind(10)]
#[kani::stub(alloc::fmt::format, stub_format)]
#[kani::stub(encoding_rs::Encoding::decode_without_bom_handling_and_without_replacement, stub_utf16_decode)]
fn c01_q_read_string_utf16() {
    let bytes: [u8; 8] = kani::any();
    let len: usize = kani::any();
    kani::assume(len <= 8);
    let mut off: usize = kani::any();
    let off0 = off;
    let e = any_endian();
    let r = hook::read_string_utf16(&mut off, &bytes[..len], e);
    kani::cover!(r.is_some() && off > off0 + 4, "a non-empty string was read");
    if let Some(s) = r {
        assert!(off0 <= len && off <= len);
        let n = off - off0 - 4;
        assert!(n % 2 == 0);
        std::mem::forget(s);
    }
}

// ---------------------------------------------------------------- exception stream
/// F: MinidumpException::read, MinidumpException::print (arguments of every write!, incl. the exception_information[i] index), get_crash_address, get_crashing_thread_id
/// I: all 168 bytes of the stream, both byte orders
/// B: one exception record; no system info (context printing is a separate harness)
/// O: never panics
#[kani::proof]
#[kani::unwind(18)]
fn c01_q_exception_read_print() {
    let bytes: [u8; 168] = kani::any();
    let r = minidump::MinidumpException::read(&bytes, &bytes, any_endian(), None);
    if let Ok(e) = r {
        kani::cover!(e.raw.exception_record.number_parameters == 15, "all 15 parameters printed");
        kani::cover!(e.raw.exception_record.number_parameters > 15, "parameter count beyond the array");
        let _ = e.print(&mut NullSink, None, None);
        let _ = e.get_crashing_thread_id();
    }
}

/// Reachability witness for the reader family.
#[kani::proof]
#[kani::unwind(18)]
fn c01_w_exception_print_reachable() {
    let bytes: [u8; 168] = kani::any();
    let r = minidump::MinidumpException::read(&bytes, &bytes, any_endian(), None);
    if let Ok(e) = r {
        let _ = e.print(&mut NullSink, None, None);
        assert!(false);
    }
}

#[path = "../playback/c01_read_total.rs"]
mod playback;
