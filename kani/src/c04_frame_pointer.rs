//! C04 — stack walking recovers the true call chain: one inductive step of the
//! frame-pointer technique per architecture, and the CfiStackWalker callbacks.
use async_trait::async_trait;
use minidump::format::{CONTEXT_AMD64, CONTEXT_ARM, CONTEXT_ARM64, CONTEXT_ARM64_OLD, CONTEXT_X86};
use minidump::system_info::{Cpu, Os};
use minidump::verif_set::VecSet;
use minidump::*;
use minidump_unwind::verif as hook;
use minidump_unwind::*;

pub struct NoSyms;
#[async_trait]
impl SymbolProvider for NoSyms {
    async fn fill_symbol(&self, _m: &(dyn Module + Sync), _f: &mut (dyn FrameSymbolizer + Send)) -> Result<(), FillSymbolError> {
        Err(FillSymbolError {})
    }
    async fn walk_frame(&self, _m: &(dyn Module + Sync), _w: &mut (dyn FrameWalker + Send)) -> Option<()> {
        None
    }
    async fn get_file_path(&self, _m: &(dyn Module + Sync), _k: FileKind) -> Result<std::path::PathBuf, FileError> {
        Err(FileError::NotFound)
    }
    fn stats(&self) -> std::collections::HashMap<String, SymbolStats> {
        std::collections::HashMap::new()
    }
    fn pending_stats(&self) -> PendingSymbolStats {
        PendingSymbolStats::default()
    }
}

pub fn sysinfo(os: Os, cpu: Cpu) -> SystemInfo {
    SystemInfo { os, os_version: None, os_build: None, cpu, cpu_info: None, cpu_microcode_version: None, cpu_count: 1 }
}

/// Reference memory model: a region of `N` bytes at `base`, words in the dump's byte order.
pub fn ref_read<const N: usize>(bytes: &[u8; N], base: u64, addr: u64, width: usize, e: Endian) -> Option<u64> {
    let off = addr.checked_sub(base)?;
    if off > N as u64 || (off as usize) + width > N {
        return None;
    }
    let off = off as usize;
    let mut v: u64 = 0;
    let mut i = 0;
    while i < width {
        let b = match e {
            Endian::Little => bytes[off + width - 1 - i],
            Endian::Big => bytes[off + i],
        };
        v = (v << 8) | b as u64;
        i += 1;
    }
    Some(v)
}

fn validity(bits: u8, names: [&'static str; 3]) -> MinidumpContextValidity {
    // bit 7 set: All; otherwise the subset of `names` selected by bits 0..2
    if bits & 0x80 != 0 {
        return MinidumpContextValidity::All;
    }
    let mut s = VecSet::new();
    if bits & 1 != 0 {
        s.insert(names[0]);
    }
    if bits & 2 != 0 {
        s.insert(names[1]);
    }
    if bits & 4 != 0 {
        s.insert(names[2]);
    }
    MinidumpContextValidity::Some(s)
}
fn has(bits: u8, i: u8) -> bool {
    bits & 0x80 != 0 || bits & (1 << i) != 0
}

/// the validity set holds exactly three names: one for each of ip, sp, fp (any documented spelling)
fn check_valid_three(v: &MinidumpContextValidity, is_ip: fn(&str) -> bool, is_sp: fn(&str) -> bool, is_fp: fn(&str) -> bool) {
    match v {
        MinidumpContextValidity::Some(s) => {
            assert!(s.len() == 3);
            let mut it = s.iter();
            let (a, b, c) = (*it.next().unwrap(), *it.next().unwrap(), *it.next().unwrap());
            let n_ip = is_ip(a) as u8 + is_ip(b) as u8 + is_ip(c) as u8;
            let n_sp = is_sp(a) as u8 + is_sp(b) as u8 + is_sp(c) as u8;
            let n_fp = is_fp(a) as u8 + is_fp(b) as u8 + is_fp(c) as u8;
            assert!(n_ip == 1 && n_sp == 1 && n_fp == 1);
        }
        MinidumpContextValidity::All => assert!(false),
    }
}

fn check_valid_exactly(v: &MinidumpContextValidity, names: [&str; 3]) {
    match v {
        MinidumpContextValidity::Some(s) => {
            assert!(s.len() == 3);
            assert!(s.contains(names[0]) && s.contains(names[1]) && s.contains(names[2]));
        }
        MinidumpContextValidity::All => assert!(false),
    }
}

const STACK: usize = 16;

macro_rules! x86_fp_harness {
    ($name:ident, $vb:expr) => {
        /// F: minidump_unwind::x86::get_caller_by_frame_pointer (+ UnifiedMemory::get_memory_at_address, StackFrame::from_context)
        /// I: callee eip/esp/ebp (u32), validity fixed per harness (All / Some{eip,esp,ebp} / ebp unknown), 16 stack bytes at a symbolic 64-bit base, dump byte order, callee trust
        /// B: one unwinding step; 16-byte stack window (4 words)
        /// O: Some iff ebp is valid, ebp < 2^32-1-8 and both words readable; then eip' = [ebp+4], esp' = ebp+8, ebp' = [ebp], trust FramePointer, exactly {eip, esp, ebp} valid, instruction = resume_address = eip'; never panics
        #[kani::proof]
        #[kani::unwind(12)]
        fn $name() {
            let mut ctx = CONTEXT_X86::default();
            ctx.eip = kani::any();
            ctx.esp = kani::any();
            ctx.ebp = kani::any();
            let vb: u8 = $vb;
            let callee = StackFrame::from_context(
                MinidumpContext { raw: MinidumpRawContext::X86(ctx.clone()), valid: validity(vb, ["eip", "esp", "ebp"]) },
                if kani::any() { FrameTrust::Context } else { FrameTrust::Scan },
            );
            let bytes: [u8; STACK] = kani::any();
            let base: u64 = kani::any();
            let e = crate::common::any_endian();
            let mem = MinidumpMemory { desc: Default::default(), base_address: base, size: STACK as u64, bytes: &bytes, endian: e };
            let modules = MinidumpModuleList::new();
            let si = sysinfo(Os::Linux, Cpu::X86);
            let r = hook::x86_frame_pointer(&ctx, &callee, None, UnifiedMemory::Memory(&mem), &modules, &si, &NoSyms);
            let bp = ctx.ebp as u64;
            let want = if !has(vb, 2) || ctx.ebp >= u32::MAX - 8 {
                None
            } else {
                match (ref_read(&bytes, base, bp + 4, 4, e), ref_read(&bytes, base, bp, 4, e)) {
                    (Some(ip), Some(fp)) => Some((ip, bp + 8, fp)),
                    _ => None,
                }
            };
            kani::cover!(r.is_some() || !has(vb, 2), "frame pointer step succeeds (when ebp is known)");
            assert!(r.is_some() == want.is_some());
            if let (Some(f), Some((ip, sp, fp))) = (&r, want) {
                assert!(f.context.get_instruction_pointer() == ip);
                assert!(f.context.get_stack_pointer() == sp);
                assert!(f.context.get_register_always("ebp") == fp);
                assert!(f.trust == FrameTrust::FramePointer);
                assert!(f.instruction == ip && f.resume_address == ip);
                check_valid_exactly(&f.context.valid, ["eip", "esp", "ebp"]);
            }
            std::mem::forget(r);
            std::mem::forget(callee);
            std::mem::forget(modules);
        }
    };
}
x86_fp_harness!(c04_q_x86_frame_pointer_step_valid_all, 0x80);
x86_fp_harness!(c04_q_x86_frame_pointer_step_valid_some, 0x07);
x86_fp_harness!(c04_q_x86_frame_pointer_step_bp_unknown, 0x03);

const STACK64: usize = 32;

fn amd64_non_canonical(p: u64) -> bool {
    p > 0x7FFF_FFFF_FFFF && p < 0xFFFF_8000_0000_0000
}

macro_rules! amd64_fp_harness {
    ($name:ident, $vb:expr) => {
        /// F: minidump_unwind::amd64::get_caller_by_frame_pointer (non-Windows form), stack_seems_valid, is_non_canonical
        /// I: callee rip/rsp/rbp (u64), validity fixed per harness (All / Some{rip,rsp,rbp} / rbp unknown / rsp unknown), 32 stack bytes at a symbolic base, byte order
        /// B: one step; 32-byte window (4 words); OS = Linux (the Windows 16-slot scan is a thorough-tier harness)
        /// O: Some iff rbp and rsp valid, rbp < 2^64-1-16, [rbp+8] and [rbp] readable, caller frame pointer >= caller sp and itself readable, return address canonical, caller sp = rbp+16 > callee sp and readable; then rip' = [rbp+8], rsp' = rbp+16, rbp' = [rbp], trust FramePointer, exactly {rip,rsp,rbp} valid; never panics
        #[kani::proof]
        #[kani::unwind(12)]
        fn $name() {
            let mut ctx = CONTEXT_AMD64::default();
            ctx.rip = kani::any();
            ctx.rsp = kani::any();
            ctx.rbp = kani::any();
            let vb: u8 = $vb;
            let callee = StackFrame::from_context(
                MinidumpContext { raw: MinidumpRawContext::Amd64(ctx.clone()), valid: validity(vb, ["rip", "rsp", "rbp"]) },
                FrameTrust::Context,
            );
            let bytes: [u8; STACK64] = kani::any();
            let base: u64 = kani::any();
            let e = crate::common::any_endian();
            let mem = MinidumpMemory { desc: Default::default(), base_address: base, size: STACK64 as u64, bytes: &bytes, endian: e };
            let modules = MinidumpModuleList::new();
            let si = sysinfo(Os::Linux, Cpu::X86_64);
            let r = hook::amd64_frame_pointer(&ctx, &callee, None, UnifiedMemory::Memory(&mem), &modules, &si, &NoSyms);
            let bp = ctx.rbp;
            let want = (|| {
                if !has(vb, 2) || !has(vb, 1) || bp >= u64::MAX - 16 {
                    return None;
                }
                let ip = ref_read(&bytes, base, bp + 8, 8, e)?;
                let fp = ref_read(&bytes, base, bp, 8, e)?;
                let sp = bp + 16;
                if fp < sp {
                    return None;
                }
                ref_read(&bytes, base, fp, 8, e)?;
                if amd64_non_canonical(ip) {
                    return None;
                }
                if sp <= ctx.rsp {
                    return None;
                }
                ref_read(&bytes, base, sp, 8, e)?;
                Some((ip, sp, fp))
            })();
            kani::cover!(r.is_some() || !(has(vb, 2) && has(vb, 1)), "frame pointer step succeeds (when rbp and rsp are known)");
            assert!(r.is_some() == want.is_some());
            if let (Some(f), Some((ip, sp, fp))) = (&r, want) {
                assert!(f.context.get_instruction_pointer() == ip);
                assert!(f.context.get_stack_pointer() == sp);
                assert!(f.context.get_register_always("rbp") == fp);
                assert!(f.trust == FrameTrust::FramePointer);
                check_valid_exactly(&f.context.valid, ["rip", "rsp", "rbp"]);
            }
            std::mem::forget(r);
            std::mem::forget(callee);
            std::mem::forget(modules);
        }
    };
}
amd64_fp_harness!(c04_q_amd64_frame_pointer_step_valid_all, 0x80);
amd64_fp_harness!(c04_q_amd64_frame_pointer_step_valid_some, 0x07);
amd64_fp_harness!(c04_t_amd64_frame_pointer_step_bp_unknown, 0x03);
amd64_fp_harness!(c04_t_amd64_frame_pointer_step_sp_unknown, 0x05);

macro_rules! arm64_fp_harness {
    ($name:ident, $ctx:ty, $variant:ident, $hookfn:ident, $vb:expr) => {
        /// F: minidump_unwind::arm64{,_old}::get_caller_by_frame_pointer, ptr_auth_strip (empty module list), is_non_canonical
        /// I: callee pc/sp/fp/lr (u64), 32 stack bytes at a symbolic base, byte order; validity fixed per harness: All, Some{pc,sp,fp}, Some{pc,sp} (fp unknown), Some{pc,fp} (sp unknown)
        /// B: one step; 32-byte window; no modules (pointer-authentication mask = Apple default 2^47-1)
        /// O: Some iff fp and sp valid, fp < 2^64-1-16, (fp == 0 or both words readable) and the stripped return address lies in [0x1000, 2^52); then pc' = [fp+8] & mask, sp' = fp+16 (callee sp when fp == 0), fp' = [fp] & mask, trust FramePointer, exactly {pc,sp,fp} valid; never panics
        #[kani::proof]
        #[kani::unwind(36)]
        fn $name() {
            let mut ctx = <$ctx>::default();
            ctx.pc = kani::any();
            ctx.sp = kani::any();
            ctx.iregs[29] = kani::any();
            ctx.iregs[30] = kani::any();
            let vb: u8 = $vb;
            let callee = StackFrame::from_context(
                MinidumpContext { raw: MinidumpRawContext::$variant(ctx.clone()), valid: validity(vb, ["pc", "sp", "fp"]) },
                FrameTrust::Context,
            );
            let bytes: [u8; STACK64] = kani::any();
            let base: u64 = kani::any();
            let e = crate::common::any_endian();
            let mem = MinidumpMemory { desc: Default::default(), base_address: base, size: STACK64 as u64, bytes: &bytes, endian: e };
            let modules = MinidumpModuleList::new();
            let si = sysinfo(Os::Linux, Cpu::Arm64);
            let r = hook::$hookfn(&ctx, &callee, None, UnifiedMemory::Memory(&mem), &modules, &si, &NoSyms);
            let fp0 = ctx.iregs[29];
            let mask: u64 = (1u64 << 47) - 1;
            let want = (|| {
                if !has(vb, 2) || !has(vb, 1) || fp0 >= u64::MAX - 16 {
                    return None;
                }
                let (fp, pc, sp) = if fp0 == 0 {
                    (0, 0, ctx.sp)
                } else {
                    (ref_read(&bytes, base, fp0, 8, e)?, ref_read(&bytes, base, fp0 + 8, 8, e)?, fp0 + 16)
                };
                let (fp, pc) = (fp & mask, pc & mask);
                if !(0x1000..=0x000f_ffff_ffff_ffffu64).contains(&pc) {
                    return None;
                }
                Some((pc, sp, fp))
            })();
            kani::cover!(r.is_some() || !(has(vb, 2) && has(vb, 1)), "frame pointer step succeeds (when fp and sp are known)");
            assert!(r.is_some() == want.is_some());
            if let (Some(f), Some((pc, sp, fp))) = (&r, want) {
                match &f.context.raw {
                    MinidumpRawContext::$variant(c) => {
                        assert!(c.pc == pc && c.sp == sp && c.iregs[29] == fp);
                    }
                    _ => assert!(false),
                }
                assert!(f.trust == FrameTrust::FramePointer);
                assert!(f.instruction == pc && f.resume_address == pc);
                check_valid_three(&f.context.valid, |n| n == "pc", |n| n == "sp", |n| n == "fp" || n == "x29");
            }
            std::mem::forget(r);
            std::mem::forget(callee);
            std::mem::forget(modules);
        }
    };
}
arm64_fp_harness!(c04_q_arm64_frame_pointer_step_valid_all, CONTEXT_ARM64, Arm64, arm64_frame_pointer, 0x80);
arm64_fp_harness!(c04_q_arm64_frame_pointer_step_valid_some, CONTEXT_ARM64, Arm64, arm64_frame_pointer, 0x07);
arm64_fp_harness!(c04_t_arm64_frame_pointer_step_fp_unknown, CONTEXT_ARM64, Arm64, arm64_frame_pointer, 0x03);
arm64_fp_harness!(c04_t_arm64_frame_pointer_step_sp_unknown, CONTEXT_ARM64, Arm64, arm64_frame_pointer, 0x05);
arm64_fp_harness!(c04_t_arm64_old_frame_pointer_step_valid_all, CONTEXT_ARM64_OLD, OldArm64, arm64_old_frame_pointer, 0x80);
arm64_fp_harness!(c04_t_arm64_old_frame_pointer_step_valid_some, CONTEXT_ARM64_OLD, OldArm64, arm64_old_frame_pointer, 0x07);

macro_rules! arm_fp_harness {
    ($name:ident, $vb:expr, $ios:expr) => {
        /// F: minidump_unwind::arm::get_caller_by_frame_pointer
        /// I: callee pc/sp/fp (u32), validity fixed per harness (All / Some{pc,sp,fp} / fp unknown), 16 stack bytes at a symbolic base, byte order, OS fixed per harness (iOS / Linux)
        /// B: one step; 16-byte window
        /// O: None unless the OS is iOS; on iOS Some iff fp and sp valid, fp < 2^32-1-8 and (fp == 0 or both words readable); then pc' = [fp+4], sp' = fp+8 (callee sp when fp == 0), fp' = [fp], trust FramePointer, exactly pc/sp/fp valid (through their aliases); never panics
        #[kani::proof]
        #[kani::unwind(20)]
        fn $name() {
            let mut ctx = CONTEXT_ARM::default();
            ctx.iregs[15] = kani::any();
            ctx.iregs[13] = kani::any();
            ctx.iregs[11] = kani::any();
            let vb: u8 = $vb;
            let callee = StackFrame::from_context(
                MinidumpContext { raw: MinidumpRawContext::Arm(ctx.clone()), valid: validity(vb, ["pc", "sp", "fp"]) },
                FrameTrust::Context,
            );
            let bytes: [u8; STACK] = kani::any();
            let base: u64 = kani::any();
            let e = crate::common::any_endian();
            let mem = MinidumpMemory { desc: Default::default(), base_address: base, size: STACK as u64, bytes: &bytes, endian: e };
            let modules = MinidumpModuleList::new();
            let ios: bool = $ios;
            let si = sysinfo(if ios { Os::Ios } else { Os::Linux }, Cpu::Arm);
            let r = hook::arm_frame_pointer(&ctx, &callee, None, UnifiedMemory::Memory(&mem), &modules, &si, &NoSyms);
            let fp0 = ctx.iregs[11];
            let want = (|| {
                if !ios || !has(vb, 2) || !has(vb, 1) || fp0 >= u32::MAX - 8 {
                    return None;
                }
                if fp0 == 0 {
                    return Some((0u64, ctx.iregs[13] as u64, 0u64));
                }
                let fp = ref_read(&bytes, base, fp0 as u64, 4, e)?;
                let pc = ref_read(&bytes, base, fp0 as u64 + 4, 4, e)?;
                Some((pc, fp0 as u64 + 8, fp))
            })();
            kani::cover!((r.is_some() && fp0 != 0) || !ios || !(has(vb, 2) && has(vb, 1)), "frame pointer step succeeds (on iOS when fp and sp are known)");
            assert!(r.is_some() == want.is_some());
            if let (Some(f), Some((pc, sp, fp))) = (&r, want) {
                match &f.context.raw {
                    MinidumpRawContext::Arm(c) => {
                        assert!(c.iregs[15] as u64 == pc && c.iregs[13] as u64 == sp && c.iregs[11] as u64 == fp);
                    }
                    _ => assert!(false),
                }
                assert!(f.trust == FrameTrust::FramePointer);
                assert!(f.instruction == pc && f.resume_address == pc);
                check_valid_three(&f.context.valid, |n| n == "pc" || n == "r15", |n| n == "sp" || n == "r13", |n| n == "fp" || n == "r11");
            }
            std::mem::forget(r);
            std::mem::forget(callee);
            std::mem::forget(modules);
        }
    };
}
arm_fp_harness!(c04_q_arm_ios_frame_pointer_step_valid_all, 0x80, true);
arm_fp_harness!(c04_q_arm_ios_frame_pointer_step_valid_some, 0x07, true);
arm_fp_harness!(c04_q_arm_linux_frame_pointer_refused, 0x80, false);
arm_fp_harness!(c04_t_arm_ios_frame_pointer_step_fp_unknown, 0x03, true);

/// Reachability witness.
#[kani::proof]
#[kani::unwind(10)]
fn c04_w_x86_frame_pointer_success_reachable() {
    let mut ctx = CONTEXT_X86::default();
    ctx.ebp = kani::any();
    let callee = StackFrame::from_context(MinidumpContext::from_raw(MinidumpRawContext::X86(ctx.clone())), FrameTrust::Context);
    let bytes: [u8; STACK] = kani::any();
    let base: u64 = kani::any();
    let mem = MinidumpMemory { desc: Default::default(), base_address: base, size: STACK as u64, bytes: &bytes, endian: Endian::Little };
    let modules = MinidumpModuleList::new();
    let si = sysinfo(Os::Linux, Cpu::X86);
    let r = hook::x86_frame_pointer(&ctx, &callee, None, UnifiedMemory::Memory(&mem), &modules, &si, &NoSyms);
    if r.is_some() {
        assert!(false);
    }
    std::mem::forget(r);
    std::mem::forget(callee);
    std::mem::forget(modules);
}

// ---------------------------------------------------------------- pointer-authentication mask with modules
fn ref_mask(max_addr: u64) -> u64 {
    // all ones below the smallest power of two >= max_addr; all ones if there is none in 64 bits
    let mut k = 0u32;
    while k < 64 {
        let p = 1u64 << k;
        if p >= max_addr {
            return p - 1;
        }
        k += 1;
    }
    !0
}

/// A module list of two modules with symbolic placement, assembled from its parts (hook): the address index is
/// sorted and disjoint, which is what `from_modules` guarantees (C08); the storage order is either.
fn two_modules() -> (MinidumpModuleList, u64) {
    let b0: u64 = kani::any();
    let s0: u32 = kani::any();
    let b1: u64 = kani::any();
    let s1: u32 = kani::any();
    kani::assume(s0 > 0 && s1 > 0);
    let e0 = b0.checked_add(s0 as u64 - 1);
    let e1 = b1.checked_add(s1 as u64 - 1);
    kani::assume(e0.is_some() && e1.is_some());
    kani::assume(e0.unwrap() < b1);
    let swap: bool = kani::any();
    let (i0, i1) = if swap { (1usize, 0usize) } else { (0usize, 1usize) };
    let m0 = MinidumpModule::new(b0, s0, "a");
    let m1 = MinidumpModule::new(b1, s1, "b");
    let mods = if swap { vec![m1, m0] } else { vec![m0, m1] };
    let rm: range_map::RangeMap<u64, usize> =
        range_map::RangeMap::try_from_iter(vec![(range_map::Range::new(b0, e0.unwrap()), i0), (range_map::Range::new(b1, e1.unwrap()), i1)]).unwrap();
    (minidump::verif::module_list_from_parts(mods, rm), b1.saturating_add(s1 as u64))
}

/// F: minidump_unwind::arm64::ptr_auth_strip, arm64_old::ptr_auth_strip, MinidumpModuleList::by_addr
/// I: two modules (base u64, size u32 each, any storage order), the pointer (u64)
/// B: 2 modules
/// A: address index sorted and disjoint (from_modules' guarantee, decided under C08); module list assembled by the hook
/// O: pointer & mask, mask = all ones below the smallest power of two >= max(2^47 - 1, end of the highest module), all ones if that power does not fit in 64 bits (documented in the function); the highest module is the one with the highest address, not the last stored
#[kani::proof]
#[kani::unwind(66)]
fn c04_q_arm64_ptr_auth_mask_from_modules() {
    let (list, top) = two_modules();
    let ptr: u64 = kani::any();
    let apple: u64 = (1u64 << 47) - 1;
    let max_addr = if top > apple { top } else { apple };
    assert!(hook::arm64_ptr_auth_strip(&list, ptr) == ptr & ref_mask(max_addr));
    assert!(hook::arm64_old_ptr_auth_strip(&list, ptr) == ptr & ref_mask(max_addr));
    kani::cover!(top > (1u64 << 47), "a module above the default split widens the mask");
    std::mem::forget(list);
}

#[path = "../playback/c04_frame_pointer.rs"]
mod playback;
