//! C08 — address lookups over untrusted range tables.
//!
//! `range_map::RangeMap::try_from_iter` (third-party) is replaced by a recorder that
//! checks the constructor's documented contract (ranges sorted by start, pairwise
//! disjoint, start <= end) and stores what it was handed.  Everything rust-minidump
//! owns (collect, sort_by_key, the skip-conflicting / merge-equal loop, the unwrap)
//! runs for real, in both copies of `into_rangemap_safe`.
use minidump_common::traits::IntoRangeMapSafe;
use minidump::Module as _;
use range_map::{Range, RangeMap};

#[derive(Clone, Copy, Debug, PartialEq, Eq)]
#[repr(transparent)]
pub struct Val(pub u8);

pub const CAP: usize = 4;
pub static mut REC: [(u64, u64, u8); CAP] = [(0, 0, 0); CAP];
pub static mut REC_LEN: usize = 0;
pub static mut REC_OK: bool = false;
pub static mut REC_CALLS: usize = 0;

pub struct Recorder<T, V>(std::marker::PhantomData<(T, V)>);
impl<T: std::fmt::Debug + num_traits::PrimInt, V: Clone + std::fmt::Debug + Eq> Recorder<T, V> {
    /// Stand-in for `RangeMap::try_from_iter`: Ok iff its documented precondition holds.
    pub fn try_from_iter<I: IntoIterator<Item = (Range<T>, V)>>(
        iter: I,
    ) -> Result<RangeMap<T, V>, range_map::OverlapError<T, V>> {
        let mut n = 0usize;
        let mut ok = true;
        let mut last_end: u64 = 0;
        for (r, v) in iter {
            let s: u64 = r.start.to_u64().unwrap();
            let e: u64 = r.end.to_u64().unwrap();
            // harness value type is a 1-byte newtype
            let tag: u8 = unsafe { std::mem::transmute_copy(&v) };
            if s > e {
                ok = false;
            }
            if n > 0 && s <= last_end {
                ok = false;
            }
            last_end = e;
            if n < CAP {
                unsafe {
                    REC[n] = (s, e, tag);
                }
            }
            n += 1;
            std::mem::forget(v);
        }
        unsafe {
            REC_LEN = n;
            REC_OK = ok;
            REC_CALLS += 1;
        }
        Ok(RangeMap::new())
    }
}

#[derive(Clone, Copy)]
struct Ent {
    base: u64,
    size: u64,
    tag: u8,
}
impl Ent {
    fn any() -> Ent {
        Ent { base: kani::any(), size: kani::any(), tag: kani::any() }
    }
    /// Ranges as callers hand them in: the most permissive of the workspace's formulae
    /// (`finish_item` for line records: `address.checked_add(size - 1)`), so that a range may
    /// end exactly at 2^64-1; the `memory_range()` formula of the other types is a subset.
    fn range(&self) -> Option<Range<u64>> {
        if self.size == 0 {
            return None;
        }
        Some(Range::new(self.base, self.base.checked_add(self.size - 1)?))
    }
    fn contains(&self, a: u64) -> bool {
        match self.range() {
            Some(r) => r.start <= a && a <= r.end,
            None => false,
        }
    }
}

fn check_result<const N: usize>(ents: &[Ent; N]) {
    let (len, ok, calls) = unsafe { (REC_LEN, REC_OK, REC_CALLS) };
    // (a)+(d): the constructor's precondition holds => building never fails, iteration sorted & disjoint
    assert!(calls == 1);
    assert!(ok);
    assert!(len <= N);
    // (b) soundness: any address inside a stored range is covered by an input entry with that value
    let k: usize = kani::any();
    kani::assume(k < len);
    let (s, e, tag) = unsafe { REC[k] };
    let a: u64 = kani::any();
    kani::assume(s <= a && a <= e);
    let mut covered = false;
    let mut starts = false;
    let mut ends = false;
    let mut i = 0;
    while i < N {
        if ents[i].tag == tag {
            if ents[i].contains(a) {
                covered = true;
            }
            if let Some(r) = ents[i].range() {
                if r.start == s {
                    starts = true;
                }
                if r.end == e {
                    ends = true;
                }
            }
        }
        i += 1;
    }
    assert!(covered && starts && ends);
    // (c) completeness: an entry that intersects no other entry is returned for every address inside it
    let j: usize = kani::any();
    kani::assume(j < N);
    if let Some(rj) = ents[j].range() {
        let mut isolated = true;
        let mut i = 0;
        while i < N {
            if i != j {
                if let Some(ri) = ents[i].range() {
                    if ri.start <= rj.end && rj.start <= ri.end {
                        isolated = false;
                    }
                }
            }
            i += 1;
        }
        let b: u64 = kani::any();
        kani::assume(rj.start <= b && b <= rj.end);
        if isolated {
            let mut found = false;
            let mut i = 0;
            while i < N {
                if i < len {
                    let (s2, e2, t2) = unsafe { REC[i] };
                    if s2 <= b && b <= e2 && t2 == ents[j].tag {
                        found = true;
                    }
                }
                i += 1;
            }
            assert!(found);
        }
        kani::cover!(isolated, "an isolated entry exists");
    }
    kani::cover!(len == N, "all entries kept");
    kani::cover!(len < N, "an entry was dropped or merged");
}

/// F: minidump_common::traits::IntoRangeMapSafe::into_rangemap_safe (collect, sort_by_key on Option<Range>, skip-conflicting / merge-equal loop, unwrap)
/// I: 2 entries with symbolic (base, size, value) over all of u64 (size 0, base+size = 2^64, identical, nested, adjacent, equal-valued all included), symbolic probe addresses
/// B: 2 entries
/// A: range_map::RangeMap::try_from_iter replaced by a recorder that returns Ok iff its documented precondition (sorted by start, pairwise disjoint) holds; RangeMap::get trusted by contract
/// O: building never fails; stored ranges sorted/disjoint; every address of a stored range is covered by an input entry with the stored value; an entry that intersects no other is stored for every address inside it
#[kani::proof]
#[kani::unwind(5)]
#[kani::stub(range_map::RangeMap::try_from_iter, Recorder::try_from_iter)]
fn c08_q_traits_into_rangemap_safe_n2() {
    let ents = [Ent::any(), Ent::any()];
    let arr = [(ents[0].range(), Val(ents[0].tag)), (ents[1].range(), Val(ents[1].tag))];
    let m = arr.into_rangemap_safe();
    std::mem::forget(m);
    check_result(&ents);
}

/// F: breakpad_symbols::sym_file::parser::into_rangemap_safe (the parser-local copy used for FUNC / STACK CFI / STACK WIN / line tables)
/// I: 2 entries with symbolic valid ranges (start <= end, incl. end = 2^64-1) and values
/// B: 2 entries
/// A: as above; callers only pass entries whose memory_range() is Some
/// O: as above
#[kani::proof]
#[kani::unwind(5)]
#[kani::stub(range_map::RangeMap::try_from_iter, Recorder::try_from_iter)]
fn c08_q_parser_into_rangemap_safe_n2() {
    parser_into_rangemap_safe_n2();
}

/// F: breakpad_symbols::sym_file::parser::into_rangemap_safe as used by SymbolParser::finish (FUNC / STACK CFI / STACK WIN tables) — same body as c08_q_parser_into_rangemap_safe_n2, registered under C09 because "parsing never panics" depends on the `.unwrap()` at the end of this function never firing
/// I: 2 records with symbolic valid ranges (start <= end, incl. end = 2^64-1) and values
/// B: 2 records
/// A: range_map::RangeMap::try_from_iter replaced by a recorder that returns Ok iff its documented precondition holds
/// O: the constructor's precondition holds for what the parser hands it, so finish() cannot panic on overlapping, duplicate or adjacent records
#[kani::proof]
#[kani::unwind(5)]
#[kani::stub(range_map::RangeMap::try_from_iter, Recorder::try_from_iter)]
fn c09_q_finish_rangemap_never_fails() {
    parser_into_rangemap_safe_n2();
}

fn parser_into_rangemap_safe_n2() {
    let ents = [Ent::any(), Ent::any()];
    kani::assume(ents[0].range().is_some() && ents[1].range().is_some());
    let v = vec![(ents[0].range().unwrap(), Val(ents[0].tag)), (ents[1].range().unwrap(), Val(ents[1].tag))];
    let m = breakpad_symbols::verif::parser::into_rangemap_safe(v);
    std::mem::forget(m);
    check_result(&ents);
}

/// T: 2400
/// M: 40
/// F: IntoRangeMapSafe::into_rangemap_safe
/// I: 3 entries, as for n2
/// B: 3 entries
/// A: as for n2
/// O: as for n2
#[kani::proof]
#[kani::unwind(6)]
#[kani::stub(range_map::RangeMap::try_from_iter, Recorder::try_from_iter)]
fn c08_t_traits_into_rangemap_safe_n3() {
    let ents = [Ent::any(), Ent::any(), Ent::any()];
    let arr = [(ents[0].range(), Val(ents[0].tag)), (ents[1].range(), Val(ents[1].tag)), (ents[2].range(), Val(ents[2].tag))];
    let m = arr.into_rangemap_safe();
    std::mem::forget(m);
    check_result(&ents);
}

/// T: 2400
/// M: 40
/// F: breakpad_symbols::sym_file::parser::into_rangemap_safe
/// I: 3 entries with symbolic valid ranges
/// B: 3 entries
/// A: as for n2
/// O: as for n2
#[kani::proof]
#[kani::unwind(6)]
#[kani::stub(range_map::RangeMap::try_from_iter, Recorder::try_from_iter)]
fn c08_t_parser_into_rangemap_safe_n3() {
    let ents = [Ent::any(), Ent::any(), Ent::any()];
    kani::assume(ents[0].range().is_some() && ents[1].range().is_some() && ents[2].range().is_some());
    let v = vec![
        (ents[0].range().unwrap(), Val(ents[0].tag)),
        (ents[1].range().unwrap(), Val(ents[1].tag)),
        (ents[2].range().unwrap(), Val(ents[2].tag)),
    ];
    let m = breakpad_symbols::verif::parser::into_rangemap_safe(v);
    std::mem::forget(m);
    check_result(&ents);
}

/// F: range_map::RangeMap::try_from_iter + RangeMap::get (the trusted constructor/lookup, checked directly)
/// I: 2 disjoint sorted ranges with symbolic bounds and values, symbolic query address
/// B: 2 ranges (fixed length)
/// O: get(addr) returns exactly the value of the range containing addr, None otherwise
#[kani::proof]
#[kani::unwind(5)]
fn c08_q_rangemap_get_fixed2() {
    let a: [(u64, u64, u8); 2] = kani::any();
    kani::assume(a[0].0 <= a[0].1 && a[0].1 < a[1].0 && a[1].0 <= a[1].1);
    kani::assume(a[0].2 != a[1].2);
    let v = vec![(Range::new(a[0].0, a[0].1), a[0].2), (Range::new(a[1].0, a[1].1), a[1].2)];
    let m = RangeMap::try_from_iter(v).unwrap();
    let addr: u64 = kani::any();
    let g = m.get(addr).copied();
    let e = if a[0].0 <= addr && addr <= a[0].1 {
        Some(a[0].2)
    } else if a[1].0 <= addr && addr <= a[1].1 {
        Some(a[1].2)
    } else {
        None
    };
    // adjacent equal-valued ranges are merged by range_map; values are distinct here
    assert!(g == e);
    std::mem::forget(m);
}

/// F: memory_range() of the range-bearing types: MinidumpModule, MinidumpUnloadedModule, MinidumpMemoryBase, MinidumpMemoryInfo, StackInfoWin, StackInfoCfi, Function
/// I: base address (u64) and size (u32/u64) symbolic
/// B: one entry each
/// O: None iff size == 0 or base+size overflows 2^64; Some(r) => r.start == base <= r.end == base+size-1
#[kani::proof]
#[kani::unwind(4)]
fn c08_q_memory_range_constructors() {
    use breakpad_symbols::verif as bs;
    let base: u64 = kani::any();
    let size32: u32 = kani::any();
    let size64: u64 = kani::any();
    let want32 = if size32 == 0 { None } else { base.checked_add(size32 as u64).map(|e| (base, e - 1)) };
    let want64 = if size64 == 0 { None } else { base.checked_add(size64).map(|e| (base, e - 1)) };
    // symbol-file records
    let swin = bs::StackInfoWin { address: base, size: size32, prologue_size: 0, epilogue_size: 0, parameter_size: 0, saved_register_size: 0, local_size: 0, max_stack_size: 0, program_string_or_base_pointer: bs::WinStackThing::AllocatesBasePointer(false) };
    assert!(swin.memory_range().map(|r| (r.start, r.end)) == want32);
    let f = bs::Function { address: base, size: size32, parameter_size: 0, name: String::new(), lines: RangeMap::new(), inlinees: Vec::new() };
    assert!(f.memory_range().map(|r| (r.start, r.end)) == want32);
    std::mem::forget(f);
    // minidump memory region
    let mem = minidump::MinidumpMemoryBase { desc: minidump::format::MINIDUMP_MEMORY_DESCRIPTOR64 { start_of_memory_range: base, data_size: size64 }, base_address: base, size: size64, bytes: &[], endian: scroll::Endian::Little };
    assert!(mem.memory_range().map(|r| (r.start, r.end)) == want64);
    // STACK CFI record, loaded / unloaded module, memory-info region
    let cfi = bs::StackInfoCfi { init: bs::CfiRules { address: base, rules: String::new() }, size: size32, add_rules: Vec::new() };
    assert!(cfi.memory_range().map(|r| (r.start, r.end)) == want32);
    std::mem::forget(cfi);
    let m = minidump::MinidumpModule::new(base, size32, "m");
    assert!(minidump::verif::module_memory_range(&m).map(|r| (r.start, r.end)) == want32);
    std::mem::forget(m);
    let u = minidump::MinidumpUnloadedModule::new(base, size32, "m");
    assert!(minidump::verif::unloaded_module_memory_range(&u).map(|r| (r.start, r.end)) == want32);
    std::mem::forget(u);
    let mut mi: minidump::MinidumpMemoryInfo = unsafe { std::mem::zeroed() };
    mi.raw.base_address = base;
    mi.raw.region_size = size64;
    assert!(mi.memory_range().map(|r| (r.start, r.end)) == want64);
    kani::cover!(want32.is_some() && base > u64::MAX - 16, "range at the top of the address space accepted");
}

/// F: memory_range() of the symbol-file records the parser files by address: Function, StackInfoWin, StackInfoCfi (the same constructors as above, registered under C09: a range with end < start makes the parser's range-map build panic)
/// I: record address (u64) and size (u32) symbolic
/// B: one record each
/// O: None iff size == 0 or address+size overflows 2^64; Some(r) => r.start == address <= r.end == address+size-1
#[kani::proof]
#[kani::unwind(4)]
fn c09_q_symbol_record_ranges() {
    use breakpad_symbols::verif as bs;
    let base: u64 = kani::any();
    let size32: u32 = kani::any();
    let want32 = if size32 == 0 { None } else { base.checked_add(size32 as u64).map(|e| (base, e - 1)) };
    let swin = bs::StackInfoWin { address: base, size: size32, prologue_size: 0, epilogue_size: 0, parameter_size: 0, saved_register_size: 0, local_size: 0, max_stack_size: 0, program_string_or_base_pointer: bs::WinStackThing::AllocatesBasePointer(false) };
    assert!(swin.memory_range().map(|r| (r.start, r.end)) == want32);
    let f = bs::Function { address: base, size: size32, parameter_size: 0, name: String::new(), lines: RangeMap::new(), inlinees: Vec::new() };
    assert!(f.memory_range().map(|r| (r.start, r.end)) == want32);
    std::mem::forget(f);
    let cfi = bs::StackInfoCfi { init: bs::CfiRules { address: base, rules: String::new() }, size: size32, add_rules: Vec::new() };
    assert!(cfi.memory_range().map(|r| (r.start, r.end)) == want32);
    std::mem::forget(cfi);
}

/// Reachability witness for the recorder family.
#[kani::proof]
#[kani::unwind(5)]
#[kani::stub(range_map::RangeMap::try_from_iter, Recorder::try_from_iter)]
fn c08_w_recorder_reached() {
    let ents = [Ent::any(), Ent::any()];
    let arr = [(ents[0].range(), Val(ents[0].tag)), (ents[1].range(), Val(ents[1].tag))];
    let m = arr.into_rangemap_safe();
    std::mem::forget(m);
    let (len, calls) = unsafe { (REC_LEN, REC_CALLS) };
    if calls == 1 && len == 2 {
        assert!(false);
    }
}

// ---------------------------------------------------------------- unloaded modules: all entries covering an address
/// F: MinidumpUnloadedModuleList::modules_at_address (list assembled by the unloaded_module_list_from_parts hook)
/// I: three unloaded modules (base u64, size u32 each; they may overlap or coincide), the address (u64)
/// B: 3 modules
/// A: index sorted by (start, end), which is how from_modules leaves it (its sort is not encodable: data-dependent length)
/// O: exactly the modules whose range covers the address are reported - all of them (coinciding ones too), each once, nothing else; an address equal to a base or to the last byte counts as covered
#[kani::proof]
#[kani::unwind(6)]
fn c08_q_unloaded_modules_at_address() {
    // three unloaded modules that may overlap or coincide; index sorted by (start, end) as from_modules leaves it
    let b: [u64; 3] = kani::any();
    let s: [u32; 3] = kani::any();
    kani::assume(s[0] > 0 && s[1] > 0 && s[2] > 0);
    let e0 = b[0].checked_add(s[0] as u64 - 1);
    let e1 = b[1].checked_add(s[1] as u64 - 1);
    let e2 = b[2].checked_add(s[2] as u64 - 1);
    kani::assume(e0.is_some() && e1.is_some() && e2.is_some());
    let (e0, e1, e2) = (e0.unwrap(), e1.unwrap(), e2.unwrap());
    kani::assume((b[0], e0) <= (b[1], e1) && (b[1], e1) <= (b[2], e2));
    let mods = vec![minidump::MinidumpUnloadedModule::new(b[0], s[0], "a"), minidump::MinidumpUnloadedModule::new(b[1], s[1], "b"), minidump::MinidumpUnloadedModule::new(b[2], s[2], "c")];
    let idx = vec![(range_map::Range::new(b[0], e0), 0usize), (range_map::Range::new(b[1], e1), 1usize), (range_map::Range::new(b[2], e2), 2usize)];
    let list = minidump::verif::unloaded_module_list_from_parts(mods, idx);
    let a: u64 = kani::any();
    let mut got = [false; 3];
    let mut n = 0;
    for m in list.modules_at_address(a) {
        let k = if m.base_address() == b[0] && m.size() == s[0] as u64 { 0 } else if m.base_address() == b[1] && m.size() == s[1] as u64 { 1 } else { 2 };
        got[k] = true;
        n += 1;
        // a reported module covers the address
        assert!(a >= m.base_address() && a - m.base_address() < m.size());
    }
    let w0 = a >= b[0] && a <= e0;
    let w1 = a >= b[1] && a <= e1;
    let w2 = a >= b[2] && a <= e2;
    // every module covering the address is reported, and nothing else (count included: coinciding modules are all reported)
    assert!(n == w0 as usize + w1 as usize + w2 as usize);
    if w0 || w1 || w2 {
        assert!(got[0] || got[1] || got[2]);
    }
    kani::cover!(n == 3, "three overlapping modules cover the address");
    kani::cover!(w1 && a == b[1], "address equal to a module's base");
    std::mem::forget(list);
}

#[path = "../playback/c08_rangemap.rs"]
mod playback;
