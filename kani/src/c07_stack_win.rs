//! C07 — STACK WIN (FPO form and the size arithmetic).
use breakpad_symbols::verif::walker as hook;
use breakpad_symbols::verif::{StackInfoWin, WinStackThing};
use breakpad_symbols::walker::walk_with_stack_win_fpo;
use breakpad_symbols::FrameWalker;

const WORDS: usize = 4;

/// Mock x86 walker: registers are `Option<u32>`; memory is a window of
/// `WORDS` 32-bit words at a symbolic base, everything else unreadable;
/// `set_caller_register` refuses values wider than 32 bits and unknown names
/// exactly like the real x86 `CfiStackWalker`.
pub struct W86 {
    pub esp: Option<u32>,
    pub ebp: Option<u32>,
    pub ebx: Option<u32>,
    pub eip: Option<u32>,
    pub gc: bool,
    pub gcps: u32,
    pub mem_lo: u64,
    pub mem: [u32; WORDS],
    pub o_eip: Option<u64>,
    pub o_esp: Option<u64>,
    pub o_ebp: Option<u64>,
    pub o_ebx: Option<u64>,
    pub set_other: bool,
    pub cleared: u32,
    pub cleared_other: bool,
}
impl W86 {
    pub fn read(&self, a: u64) -> Option<u64> {
        let off = a.checked_sub(self.mem_lo)?;
        if off % 4 != 0 || off / 4 >= WORDS as u64 {
            return None;
        }
        Some(self.mem[(off / 4) as usize] as u64)
    }
}
impl FrameWalker for W86 {
    fn get_instruction(&self) -> u64 {
        0
    }
    fn has_grand_callee(&self) -> bool {
        self.gc
    }
    fn get_grand_callee_parameter_size(&self) -> u32 {
        self.gcps
    }
    fn get_register_at_address(&self, a: u64) -> Option<u64> {
        self.read(a)
    }
    fn get_callee_register(&self, name: &str) -> Option<u64> {
        match name {
            "esp" => self.esp.map(u64::from),
            "ebp" => self.ebp.map(u64::from),
            "ebx" => self.ebx.map(u64::from),
            "eip" => self.eip.map(u64::from),
            _ => None,
        }
    }
    fn set_caller_register(&mut self, name: &str, val: u64) -> Option<()> {
        if val > u32::MAX as u64 {
            return None;
        }
        match name {
            "eip" => self.o_eip = Some(val),
            "esp" => self.o_esp = Some(val),
            "ebp" => self.o_ebp = Some(val),
            "ebx" => self.o_ebx = Some(val),
            _ => {
                self.set_other = true;
                return None;
            }
        }
        Some(())
    }
    fn clear_caller_register(&mut self, name: &str) {
        match name {
            "$eip" | "eip" => self.cleared |= 1,
            "$esp" | "esp" => self.cleared |= 2,
            "$ebp" | "ebp" => self.cleared |= 4,
            "$ebx" | "ebx" => self.cleared |= 8,
            "$esi" | "esi" => self.cleared |= 16,
            "$edi" | "edi" => self.cleared |= 32,
            _ => self.cleared_other = true,
        }
    }
    fn set_cfa(&mut self, _v: u64) -> Option<()> {
        None
    }
    fn set_ra(&mut self, _v: u64) -> Option<()> {
        None
    }
}

fn any_walker() -> W86 {
    W86 {
        esp: kani::any(),
        ebp: kani::any(),
        ebx: kani::any(),
        eip: Some(kani::any()),
        gc: kani::any(),
        gcps: kani::any(),
        mem_lo: kani::any(),
        mem: kani::any(),
        o_eip: None,
        o_esp: None,
        o_ebp: None,
        o_ebx: None,
        set_other: false,
        cleared: 0,
        cleared_other: false,
    }
}

fn any_info(thing: WinStackThing) -> StackInfoWin {
    StackInfoWin {
        address: 0,
        size: 16,
        prologue_size: kani::any(),
        epilogue_size: kani::any(),
        parameter_size: kani::any(),
        saved_register_size: kani::any(),
        local_size: kani::any(),
        max_stack_size: kani::any(),
        program_string_or_base_pointer: thing,
    }
}

/// The documented FPO formulae (walker.rs module docs + the leftover-return-
/// address rule) in exact (non-wrapping) arithmetic. `None` = must fail.
fn fpo_reference(info: &StackInfoWin, abp: bool, w: &W86) -> Option<(u64, u64, u64, Option<u64>)> {
    let frame = info.local_size as u128 + info.saved_register_size as u128 + w.gcps as u128;
    if frame > u32::MAX as u128 {
        // frame_size is a 32-bit quantity; an unrepresentable one must fail cleanly
        return None;
    }
    let esp = w.esp? as u128;
    let mut eip_addr = esp + frame;
    let mut eip = w.read(eip_addr as u64)?;
    if !w.gc && Some(eip) == w.eip.map(u64::from) {
        eip_addr += 4;
        eip = w.read(eip_addr as u64)?;
    }
    let caller_esp = eip_addr + 4;
    let (ebp, ebx) = if abp {
        let a = (esp + w.gcps as u128 + info.saved_register_size as u128).checked_sub(8)?;
        (w.read(a as u64)?, None)
    } else {
        (w.ebp? as u64, w.ebx.map(u64::from))
    };
    if caller_esp > u32::MAX as u128 {
        return None;
    }
    Some((eip, caller_esp as u64, ebp, ebx))
}

/// F: breakpad_symbols::walker::walk_with_stack_win_fpo (+ win_frame_size, clear_stack_win_caller_registers)
/// I: local/saved/parameter size fields (full u32), allocates_base_pointer, callee esp/ebp/ebx (optional u32), eip, has_grand_callee, grand-callee parameter size, 4-word stack window at a symbolic 64-bit base
/// B: one record, one step, window 4 words
/// A: callee eip present (every produced frame has a valid eip); mock FrameWalker with x86 width rule
/// O: result == documented formulae in exact arithmetic; None (no panic) on overflow/underflow/unreadable word; only eip/esp/ebp/ebx set; the six STACK WIN registers cleared
#[kani::proof]
#[kani::unwind(8)]
fn c07_q_fpo_matches_documented_formulae() {
    fpo_matches_documented_formulae();
}

/// F: walk_with_stack_win_fpo as the unwinding step of frames described by STACK WIN type-0 (FPO) records (same body as c07_q_fpo_matches_documented_formulae, registered under C04: the recovered caller eip / esp / ebp / ebx are that frame of the call chain)
/// I: as c07_q_fpo_matches_documented_formulae
/// B: one record, one step, window 4 words
/// A: as there
/// O: as there; in particular the saved-ebp slot is located with the grand-callee parameter size, not the record's own
#[kani::proof]
#[kani::unwind(8)]
fn c04_q_stack_win_fpo_step() {
    fpo_matches_documented_formulae();
}

fn fpo_matches_documented_formulae() {
    let mut w = any_walker();
    let abp: bool = kani::any();
    let info = any_info(WinStackThing::AllocatesBasePointer(abp));
    let exp = fpo_reference(&info, abp, &w);
    let got = walk_with_stack_win_fpo(&info, &mut w);
    kani::cover!(got.is_some() && abp, "fpo succeeds with allocated base pointer");
    kani::cover!(got.is_some() && !abp && w.o_ebx.is_some(), "fpo succeeds with ebx pass-through");
    kani::cover!(got.is_some() && !w.gc && w.o_esp == Some(w.esp.unwrap() as u64 + 8 + info.local_size as u64 + info.saved_register_size as u64 + w.gcps as u64), "leftover return address skipped");
    assert!(got.is_some() == exp.is_some());
    if let Some((eip, esp, ebp, ebx)) = exp {
        assert!(w.o_eip == Some(eip));
        assert!(w.o_esp == Some(esp));
        assert!(w.o_ebp == Some(ebp));
        assert!(w.o_ebx == ebx);
    }
    assert!(!w.set_other);
    assert!(!w.cleared_other && w.cleared == 63);
}

/// Reachability witness for the FPO family: the success path must be reachable.
#[kani::proof]
#[kani::unwind(8)]
fn c07_w_fpo_success_reachable() {
    let mut w = any_walker();
    let abp: bool = kani::any();
    let info = any_info(WinStackThing::AllocatesBasePointer(abp));
    let got = walk_with_stack_win_fpo(&info, &mut w);
    if got.is_some() {
        assert!(false);
    }
}

/// F: win_frame_size
/// I: local_size, saved_register_size, grand-callee parameter size: full u32 each
/// B: none (straight-line)
/// O: never panics; Some(exact sum) iff the exact sum fits in 32 bits (a wrapped sum is never returned)
#[kani::proof]
fn c07_q_win_frame_size_total() {
    let info = any_info(WinStackThing::AllocatesBasePointer(false));
    let g: u32 = kani::any();
    let exact = info.local_size as u64 + info.saved_register_size as u64 + g as u64;
    let got = hook::win_frame_size(&info, g);
    kani::cover!(got.is_none(), "overflowing sum rejected");
    match got {
        Some(v) => assert!(v as u64 == exact),
        None => assert!(exact > u32::MAX as u64),
    }
}

#[path = "../playback/c07_stack_win.rs"]
mod playback;
