//! C06 — STACK CFI expression evaluator: mock walker and reference interpreter.
use breakpad_symbols::FrameWalker;

/// Mock walker: two callee registers (`rax`, `rbx`), each possibly unknown; two
/// readable memory cells at symbolic addresses, everything else unreadable.
pub struct W {
    pub rax: Option<u64>,
    pub rbx: Option<u64>,
    pub a0: u64,
    pub v0: u64,
    pub a1: u64,
    pub v1: u64,
}
impl W {
    pub fn any() -> W {
        W { rax: kani::any(), rbx: kani::any(), a0: kani::any(), v0: kani::any(), a1: kani::any(), v1: kani::any() }
    }
    pub fn read(&self, a: u64) -> Option<u64> {
        if a == self.a0 {
            Some(self.v0)
        } else if a == self.a1 {
            Some(self.v1)
        } else {
            None
        }
    }
}
impl FrameWalker for W {
    fn get_instruction(&self) -> u64 {
        0
    }
    fn has_grand_callee(&self) -> bool {
        false
    }
    fn get_grand_callee_parameter_size(&self) -> u32 {
        0
    }
    fn get_register_at_address(&self, a: u64) -> Option<u64> {
        self.read(a)
    }
    fn get_callee_register(&self, name: &str) -> Option<u64> {
        match name {
            "rax" => self.rax,
            "rbx" => self.rbx,
            _ => None,
        }
    }
    fn set_caller_register(&mut self, _name: &str, _val: u64) -> Option<()> {
        None
    }
    fn clear_caller_register(&mut self, _name: &str) {}
    fn set_cfa(&mut self, _v: u64) -> Option<()> {
        None
    }
    fn set_ra(&mut self, _v: u64) -> Option<()> {
        None
    }
}

/// Token codes of the reference interpreter (it never sees the program text).
#[derive(Clone, Copy)]
pub enum T {
    Add,
    Sub,
    Mul,
    Div,
    Mod,
    Align,
    Deref,
    Cfa,
    Undef,
    Rax,
    Rbx,
    Lit(i64),
    /// a token that is neither an operator, a register the walker knows, nor an in-range literal
    Bad,
}

/// The documented postfix semantics (walker.rs module docs): 64-bit wrapping
/// `+ - *`; `/ %` fail on 0 and are unsigned; `@` fails unless the rhs is a power of
/// two, else truncates lhs to a multiple of it; `^` reads memory; `.cfa` fails when the
/// CFA is not available; `.undef` fails; literals are i64 two's complement;
/// underflow, leftovers and unknown tokens fail.
pub fn ref_eval(toks: &[T], w: &W, cfa: Option<u64>) -> Option<u64> {
    let mut st = [0u64; 12];
    let mut n = 0usize;
    let mut i = 0;
    while i < toks.len() {
        match toks[i] {
            T::Add | T::Sub | T::Mul | T::Div | T::Mod | T::Align => {
                if n < 2 {
                    return None;
                }
                let r = st[n - 1];
                let l = st[n - 2];
                n -= 2;
                let v = match toks[i] {
                    T::Add => l.wrapping_add(r),
                    T::Sub => l.wrapping_sub(r),
                    T::Mul => l.wrapping_mul(r),
                    T::Div => {
                        if r == 0 {
                            return None;
                        }
                        l / r
                    }
                    T::Mod => {
                        if r == 0 {
                            return None;
                        }
                        l % r
                    }
                    _ => {
                        if r == 0 || (r & (r - 1)) != 0 {
                            return None;
                        }
                        l & !(r - 1)
                    }
                };
                st[n] = v;
                n += 1;
            }
            T::Deref => {
                if n < 1 {
                    return None;
                }
                match w.read(st[n - 1]) {
                    Some(v) => st[n - 1] = v,
                    None => return None,
                }
            }
            T::Cfa => {
                st[n] = cfa?;
                n += 1;
            }
            T::Undef => return None,
            T::Rax => {
                st[n] = w.rax?;
                n += 1;
            }
            T::Rbx => {
                st[n] = w.rbx?;
                n += 1;
            }
            T::Lit(v) => {
                st[n] = v as u64;
                n += 1;
            }
            T::Bad => return None,
        }
        i += 1;
    }
    if n == 1 {
        Some(st[0])
    } else {
        None
    }
}

pub fn check_prog(w: &mut W, cfa: Option<u64>, text: &'static str, toks: &[T]) {
    let want = ref_eval(toks, w, cfa);
    let got = breakpad_symbols::verif::walker::eval_cfi_expr(text, w, cfa);
    assert!(got == want);
}
