//! C11 — symbolication returns the covering record: the searchable kernels.
use breakpad_symbols::verif::{Function, Inlinee, PublicSymbol};
use range_map::RangeMap;

const N: usize = 3;

fn any_sorted_inlinees() -> ([(u32, u64, u32, u32, u32); N], Vec<Inlinee>) {
    let mut keys = [(0u32, 0u64, 0u32, 0u32, 0u32); N];
    let mut v = Vec::with_capacity(N);
    let mut i = 0;
    while i < N {
        let d: u32 = kani::any();
        kani::assume(d <= 2);
        let a: u64 = kani::any();
        let s: u32 = kani::any();
        let cl: u32 = kani::any();
        keys[i] = (d, a, s, cl, i as u32);
        v.push(Inlinee { depth: d, address: a, size: s, call_file: i as u32 + 100, call_line: cl, origin_id: i as u32 });
        i += 1;
    }
    // documented invariant established by finish_item's sort(): sorted by (depth, address)
    kani::assume((keys[0].0, keys[0].1) <= (keys[1].0, keys[1].1));
    kani::assume((keys[1].0, keys[1].1) <= (keys[2].0, keys[2].1));
    (keys, v)
}

/// F: breakpad_symbols::sym_file::types::Function::get_inlinee_at_depth (binary search on (depth, address)), get_outermost_sourceloc (inline branch)
/// I: 3 inlinee records with symbolic (depth <= 2, address, size, call_line), symbolic query (depth, addr)
/// B: 3 records, depth <= 2
/// A: records sorted by (depth, address) (the invariant finish_item establishes); distinct keys for the equality clause
/// O: Some(r) => r has the queried depth and address <= addr < address+size (no overflow panic at the top of the address space); for distinct keys the result equals a linear scan: the last record with key <= (depth, addr), if it has that depth and covers addr
#[kani::proof]
#[kani::unwind(6)]
fn c11_q_inlinee_at_depth_matches_linear_scan() {
    let (keys, v) = any_sorted_inlinees();
    let f = Function { address: 0, size: 1, parameter_size: 0, name: String::new(), lines: RangeMap::new(), inlinees: v };
    let depth: u32 = kani::any();
    let addr: u64 = kani::any();
    let got = f.get_inlinee_at_depth(depth, addr);
    // soundness for any (possibly duplicated) keys
    if let Some((call_file, call_line, address, origin)) = got {
        let i = origin as usize;
        assert!(i < N);
        assert!(call_file == i as u32 + 100);
        assert!(keys[i].0 == depth && keys[i].1 == address && keys[i].3 == call_line);
        assert!(address <= addr);
        assert!((addr - address) < keys[i].2 as u64);
    }
    kani::cover!(got.is_some() && depth == 1, "a depth-1 inlinee found");
    // completeness against a linear scan when keys are distinct
    if (keys[0].0, keys[0].1) != (keys[1].0, keys[1].1) && (keys[1].0, keys[1].1) != (keys[2].0, keys[2].1) {
        let mut cand: Option<usize> = None;
        let mut i = 0;
        while i < N {
            if (keys[i].0, keys[i].1) <= (depth, addr) {
                cand = Some(i);
            }
            i += 1;
        }
        let want = match cand {
            Some(i) if keys[i].0 == depth && (addr - keys[i].1) < keys[i].2 as u64 && keys[i].1.checked_add(keys[i].2 as u64).is_some() => Some(i as u32),
            _ => None,
        };
        assert!(got.map(|g| g.3) == want);
    }
    // outermost source location takes the depth-0 inlinee when there is one
    if depth == 0 {
        let o = f.get_outermost_sourceloc(addr);
        match got {
            Some((cf, cl, a, org)) => assert!(o == Some((cf, cl, a, Some(org)))),
            None => assert!(o.is_none()),
        }
    }
    std::mem::forget(f);
}

/// Reachability witness.
#[kani::proof]
#[kani::unwind(6)]
fn c11_w_inlinee_found_reachable() {
    let (_keys, v) = any_sorted_inlinees();
    let f = Function { address: 0, size: 1, parameter_size: 0, name: String::new(), lines: RangeMap::new(), inlinees: v };
    let got = f.get_inlinee_at_depth(kani::any(), kani::any());
    if got.is_some() {
        assert!(false);
    }
    std::mem::forget(f);
}

#[path = "../playback/c11_symbolication.rs"]
mod playback;
