//! C11 — symbolication returns the covering record: the searchable kernels.
use breakpad_symbols::verif::{Function, Inlinee, PublicSymbol};
use range_map::RangeMap;

const N: usize = 3;

fn any_sorted_inlinees() -> ([(u32, u64, u32, u32, u32); N], Vec<Inlinee>) {
    let mut keys = [(0u32, 0u64, 0u32, 0u32, 0u32); N];
    let mut v = Vec::with_capacity(N);
    let mut i = 0;
    while i < N {
        let d: u32 = kani::any();
        kani::assume(d <= 2);
        let a: u64 = kani::any();
        let s: u32 = kani::any();
        let cl: u32 = kani::any();
        keys[i] = (d, a, s, cl, i as u32);
        v.push(Inlinee { depth: d, address: a, size: s, call_file: i as u32 + 100, call_line: cl, origin_id: i as u32 });
        i += 1;
    }
    // documented invariant established by finish_item's sort(): sorted by (depth, address)
    kani::assume((keys[0].0, keys[0].1) <= (keys[1].0, keys[1].1));
    kani::assume((keys[1].0, keys[1].1) <= (keys[2].0, keys[2].1));
    (keys, v)
}

/// F: breakpad_symbols::sym_file::types::Function::get_inlinee_at_depth (binary search on (depth, address)), get_outermost_sourceloc (inline branch)
/// I: 3 inlinee records with symbolic (depth <= 2, address, size, call_line), symbolic query (depth, addr)
/// B: 3 records, depth <= 2
/// A: records sorted by (depth, address) (the invariant finish_item establishes); distinct keys for the equality clause
/// O: Some(r) => r has the queried depth and address <= addr < address+size (no overflow panic at the top of the address space); for distinct keys the result equals a linear scan: the last record with key <= (depth, addr), if it has that depth and covers addr
#[kani::proof]
#[kani::unwind(6)]
fn c11_q_inlinee_at_depth_matches_linear_scan() {
    let (keys, v) = any_sorted_inlinees();
    let f = Function { address: 0, size: 1, parameter_size: 0, name: String::new(), lines: RangeMap::new(), inlinees: v };
    let depth: u32 = kani::any();
    let addr: u64 = kani::any();
    let got = f.get_inlinee_at_depth(depth, addr);
    // soundness for any (possibly duplicated) keys
    if let Some((call_file, call_line, address, origin)) = got {
        let i = origin as usize;
        assert!(i < N);
        assert!(call_file == i as u32 + 100);
        assert!(keys[i].0 == depth && keys[i].1 == address && keys[i].3 == call_line);
        assert!(address <= addr);
        assert!((addr - address) < keys[i].2 as u64);
    }
    kani::cover!(got.is_some() && depth == 1, "a depth-1 inlinee found");
    // completeness against a linear scan when keys are distinct
    if (keys[0].0, keys[0].1) != (keys[1].0, keys[1].1) && (keys[1].0, keys[1].1) != (keys[2].0, keys[2].1) {
        let mut cand: Option<usize> = None;
        let mut i = 0;
        while i < N {
            if (keys[i].0, keys[i].1) <= (depth, addr) {
                cand = Some(i);
            }
            i += 1;
        }
        let want = match cand {
            Some(i) if keys[i].0 == depth && (addr - keys[i].1) < keys[i].2 as u64 && keys[i].1.checked_add(keys[i].2 as u64).is_some() => Some(i as u32),
            _ => None,
        };
        assert!(got.map(|g| g.3) == want);
    }
    // outermost source location takes the depth-0 inlinee when there is one
    if depth == 0 {
        let o = f.get_outermost_sourceloc(addr);
        match got {
            Some((cf, cl, a, org)) => assert!(o == Some((cf, cl, a, Some(org)))),
            None => assert!(o.is_none()),
        }
    }
    std::mem::forget(f);
}

/// Reachability witness.
#[kani::proof]
#[kani::unwind(6)]
fn c11_w_inlinee_found_reachable() {
    let (_keys, v) = any_sorted_inlinees();
    let f = Function { address: 0, size: 1, parameter_size: 0, name: String::new(), lines: RangeMap::new(), inlinees: v };
    let got = f.get_inlinee_at_depth(kani::any(), kani::any());
    if got.is_some() {
        assert!(false);
    }
    std::mem::forget(f);
}

use breakpad_symbols::verif::SourceLine;

// ---- stand-in for HashMap<u32, String>::get: the two name tables of the symbol file, identified by address
static mut FILES_MAP: usize = 0;
static mut ORIGINS_MAP: usize = 0;
static mut NAMES: Option<[String; 3]> = None; // "f.c", "a", "b"
pub struct MapStub<K, V, S, A>(std::marker::PhantomData<(K, V, S, A)>);
impl<K, V, S, A: std::alloc::Allocator> MapStub<K, V, S, A> {
    pub fn get<'a, Q: ?Sized>(m: &'a std::collections::HashMap<K, V, S, A>, k: &Q) -> Option<&'a V>
    where
        K: std::borrow::Borrow<Q> + Eq + std::hash::Hash,
        Q: std::hash::Hash + Eq,
        S: std::hash::BuildHasher,
    {
        unsafe {
            let key = *(k as *const Q as *const u32);
            let names = (*std::ptr::addr_of!(NAMES)).as_ref().unwrap();
            let which = m as *const std::collections::HashMap<K, V, S, A> as usize;
            let r: Option<&String> = if which == FILES_MAP {
                if key == 1 { Some(&names[0]) } else { None }
            } else if which == ORIGINS_MAP {
                if key == 7 { Some(&names[1]) } else if key == 8 { Some(&names[2]) } else { None }
            } else {
                None
            };
            std::mem::transmute_copy::<Option<&String>, Option<&'a V>>(&r)
        }
    }
    /// `HashMap::insert` does nothing in the solver run (lookups are answered by the oracle above); in a native
    /// replay, where stubs are not active, the real insert fills the real tables with the same entries.
    pub fn insert(_m: &mut std::collections::HashMap<K, V, S, A>, k: K, v: V) -> Option<V> {
        std::mem::forget(k);
        std::mem::forget(v);
        None
    }
}

/// names are told apart by their first byte ("f.c", "a", "b")
fn tag(s: &str) -> usize {
    s.as_bytes().first().copied().unwrap_or(0) as usize
}

struct RecInl {
    ins: u64,
    func: u32,
    src: Option<(usize, u32, u64)>,
    nsrc: u32,
    inl: [(usize, usize, Option<u32>); 3],
    ninl: usize,
}
impl FrameSymbolizer for RecInl {
    fn get_instruction(&self) -> u64 { self.ins }
    fn set_function(&mut self, _name: &str, _base: u64, _ps: u32) { self.func += 1; }
    fn set_source_file(&mut self, f: &str, l: u32, b: u64) { self.src = Some((tag(f), l, b)); self.nsrc += 1; }
    fn add_inline_frame(&mut self, name: &str, file: Option<&str>, line: Option<u32>) {
        if self.ninl < 3 {
            self.inl[self.ninl] = (tag(name), file.map_or(0, tag), line);
        }
        self.ninl += 1;
    }
}

/// M: 16
/// F: breakpad_symbols::SymbolFile::fill_symbol (source line, inline-frame emission and its location shift), Function::{get_outermost_sourceloc, get_inlinee_at_depth, get_innermost_sourceloc}
/// I: one FUNC with one line record covering a symbolic-length prefix of it (file id 1 or 2, any line number) and two inlinee records (depth 0 and depth 1; address, size, call file 1 or 2, call line symbolic); the instruction anywhere in the function
/// B: 1 FUNC, 1 line record, inline depth <= 2
/// A: `HashMap::get` replaced by an oracle for the two name tables (file 1 = "f.c", file 2 unknown; inline origins 7 = "a", 8 = "b") - the hash maps themselves stay empty; HashMap::new's random keys replaced by constants; module base 0 (base arithmetic is decided by the other fill_symbol harnesses)
/// O: the function is reported once; the source file is reported iff the outermost location's file id is known, with the call site of the depth-0 inline if one covers the address, else the line record; inline frames are emitted whether or not that file is known: none without a depth-0 inline; with inlines, each inline is reported with the location of the call made *inside* it and the innermost one with the line record's location (line 0 reported as unknown; no covering line record: the frame is still emitted, with unknown file and line)
#[kani::proof]
#[kani::unwind(6)]
#[kani::stub(std::hash::RandomState::new, fixed_random_state)]
#[kani::stub(std::collections::HashMap::get, MapStub::get)]
#[kani::stub(std::collections::HashMap::insert, MapStub::insert)]
fn c11_q_fill_symbol_lines_and_inlines() {
    unsafe { NAMES = Some([String::from("f.c"), String::from("a"), String::from("b")]); }
    let names = unsafe { (*std::ptr::addr_of!(NAMES)).as_ref().unwrap() };
    let (pf, pa, pb) = (tag(&names[0]), tag(&names[1]), tag(&names[2]));
    // one FUNC [0x100, 0x200) with one line record covering it
    let lf: u32 = kani::any();
    let ll: u32 = kani::any();
    kani::assume(lf == 1 || lf == 2);
    // the line record covers [0x100, 0x100 + ls): possibly only the start of the function
    let ls: u32 = kani::any();
    kani::assume(ls >= 1 && ls <= 0x100);
    let lines = RangeMap::try_from_iter(vec![(Range::new(0x100u64, 0xffu64 + ls as u64), SourceLine { address: 0x100, size: ls, file: lf, line: ll })]).unwrap();
    // up to two inlinee records: depth 0 (origin 7) and depth 1 (origin 8), symbolic ranges
    let (a0, s0, cf0, cl0): (u64, u32, u32, u32) = (kani::any(), kani::any(), kani::any(), kani::any());
    let (a1, s1, cf1, cl1): (u64, u32, u32, u32) = (kani::any(), kani::any(), kani::any(), kani::any());
    kani::assume(a0 < 0x1000 && a1 < 0x1000 && s0 < 0x1000 && s1 < 0x1000);
    kani::assume((cf0 == 1 || cf0 == 2) && (cf1 == 1 || cf1 == 2));
    let inlinees = vec![
        Inlinee { depth: 0, address: a0, size: s0, call_file: cf0, call_line: cl0, origin_id: 7 },
        Inlinee { depth: 1, address: a1, size: s1, call_file: cf1, call_line: cl1, origin_id: 8 },
    ];
    let f = Function { address: 0x100, size: 0x100, parameter_size: 0, name: String::new(), lines, inlinees };
    let mut sf = SymbolFile {
        module_id: String::new(),
        debug_file: String::new(),
        files: std::collections::HashMap::new(),
        publics: Vec::new(),
        functions: RangeMap::try_from_iter(vec![(Range::new(0x100u64, 0x1ffu64), f)]).unwrap(),
        inline_origins: std::collections::HashMap::new(),
        cfi_stack_info: RangeMap::new(),
        win_stack_framedata_info: RangeMap::new(),
        win_stack_fpo_info: RangeMap::new(),
        url: None,
        ambiguities_repaired: 0,
        ambiguities_discarded: 0,
        corruptions_discarded: 0,
        cfi_eval_corruptions: 0,
    };
    // no-ops in the solver run (stubbed), real inserts in a native replay
    sf.files.insert(1, String::from("f.c"));
    sf.inline_origins.insert(7, String::from("a"));
    sf.inline_origins.insert(8, String::from("b"));
    unsafe {
        FILES_MAP = &sf.files as *const _ as usize;
        ORIGINS_MAP = &sf.inline_origins as *const _ as usize;
    }
    let module = minidump::MinidumpModule::new(0, 0x1000, "m");
    let mut fr = RecInl { ins: kani::any(), func: 0, src: None, nsrc: 0, inl: [(0, 0, None); 3], ninl: 0 };
    kani::assume(fr.ins >= 0x100 && fr.ins <= 0x1ff);
    let addr = fr.ins;
    sf.fill_symbol(&module, &mut fr);
    assert!(fr.func == 1);
    let d0 = a0 <= addr && addr - a0 < s0 as u64;
    let d1 = a1 <= addr && addr - a1 < s1 as u64;
    let lined = addr - 0x100 < ls as u64;
    let file = |id: u32| if id == 1 { pf } else { 0 };
    // outermost location: the call site of the depth-0 inline if there is one, else the line record (if it covers the address)
    let outer = if d0 { Some((cf0, cl0, a0)) } else if lined { Some((lf, ll, 0x100)) } else { None };
    match outer {
        Some((of, ol, oa)) if of == 1 => assert!(fr.nsrc == 1 && fr.src == Some((pf, ol, oa))),
        _ => assert!(fr.nsrc == 0),
    }
    // innermost location: the line record's, or unknown when no line record covers the address
    let (inner_file, inner_line) = if lined { (file(lf), if ll != 0 { Some(ll) } else { None }) } else { (0, None) };
    if !d0 {
        assert!(fr.ninl == 0);
    } else if !d1 {
        // one inline: it is reported with the innermost location (even when that is unknown)
        assert!(fr.ninl == 1 && fr.inl[0] == (pa, inner_file, inner_line));
    } else {
        // two inlines: each is reported with the location of the call *inside* it
        assert!(fr.ninl == 2 && fr.inl[0] == (pa, file(cf1), Some(cl1)) && fr.inl[1] == (pb, inner_file, inner_line));
    }
    let of = outer.map_or(0, |o| o.0);
    kani::cover!(d0 && !lined, "an inline at an address without a line record");
    kani::cover!(d0 && d1 && of == 2, "two inlines although the outermost file is unknown");
    std::mem::forget(sf);
    std::mem::forget(module);
}

#[path = "../playback/c11_symbolication.rs"]
mod playback;

// ---------------------------------------------------------------- fill_symbol: FUNC lookup and PUBLIC fallback
use breakpad_symbols::verif::SymbolFile;
use breakpad_symbols::FrameSymbolizer;
use range_map::Range;

pub fn fixed_random_state() -> std::hash::RandomState {
    // HashMap::new() reads OS randomness (a foreign function for Kani); the maps stay empty here,
    // so the keys are irrelevant.  Layout of RandomState is { k0: u64, k1: u64 }.
    unsafe { std::mem::transmute::<[u64; 2], std::hash::RandomState>([0x0123_4567_89ab_cdef, 0xfedc_ba98_7654_3210]) }
}

struct Rec {
    ins: u64,
    func: Option<(u64, u32)>,
    calls: u32,
}
impl FrameSymbolizer for Rec {
    fn get_instruction(&self) -> u64 {
        self.ins
    }
    fn set_function(&mut self, _name: &str, base: u64, ps: u32) {
        self.func = Some((base, ps));
        self.calls += 1;
    }
    fn set_source_file(&mut self, _f: &str, _l: u32, _b: u64) {}
}

fn func(address: u64, size: u32, ps: u32) -> Function {
    Function { address, size, parameter_size: ps, name: String::new(), lines: RangeMap::new(), inlinees: Vec::new() }
}

/// M: 16
/// F: breakpad_symbols::SymbolFile::fill_symbol (module-base arithmetic, FUNC lookup, PUBLIC fallback incl. the cut-off-by-an-intervening-FUNC rule), find_nearest_public
/// I: two FUNC records with symbolic non-overlapping address-ordered ranges and parameter sizes, two PUBLIC records with symbolic ordered addresses, module base (full u64), instruction (full u64)
/// B: 2 FUNC + 2 PUBLIC records; no line records, no inlines, empty name tables, no STACK WIN records
/// A: FUNC ranges valid, sorted and disjoint (what finish() establishes via into_rangemap_safe, see C08); PUBLICs sorted by address (finish() sorts them); HashMap::new's random keys replaced by constants (maps stay empty)
/// O: nothing is reported for an instruction below the module base; else the FUNC whose range contains the module-relative address is reported with base = FUNC address + module base and its parameter size; if none contains it, the nearest PUBLIC at or before the address unless a FUNC starts at or after that PUBLIC and at or before the address; a reported base never exceeds the instruction; no overflow for any module base
#[kani::proof]
#[kani::unwind(6)]
#[kani::stub(std::hash::RandomState::new, fixed_random_state)]
fn c11_q_fill_symbol_func_or_public() {
    let f0a: u64 = kani::any();
    let f0s: u32 = kani::any();
    let f1a: u64 = kani::any();
    let f1s: u32 = kani::any();
    kani::assume(f0s > 0 && f1s > 0);
    let f0e = f0a.checked_add(f0s as u64 - 1);
    let f1e = f1a.checked_add(f1s as u64 - 1);
    kani::assume(f0e.is_some() && f1e.is_some() && f0e.unwrap() < u64::MAX && f1e.unwrap() < u64::MAX);
    let (f0e, f1e) = (f0e.unwrap(), f1e.unwrap());
    kani::assume(f0e < f1a);
    let p0: u64 = kani::any();
    let p1: u64 = kani::any();
    kani::assume(p0 <= p1);
    let functions = RangeMap::try_from_iter(vec![(Range::new(f0a, f0e), func(f0a, f0s, 10)), (Range::new(f1a, f1e), func(f1a, f1s, 11))]).unwrap();
    let sf = SymbolFile {
        module_id: String::new(),
        debug_file: String::new(),
        files: std::collections::HashMap::new(),
        publics: vec![PublicSymbol { address: p0, name: String::new(), parameter_size: 20 }, PublicSymbol { address: p1, name: String::new(), parameter_size: 21 }],
        functions,
        inline_origins: std::collections::HashMap::new(),
        cfi_stack_info: RangeMap::new(),
        win_stack_framedata_info: RangeMap::new(),
        win_stack_fpo_info: RangeMap::new(),
        url: None,
        ambiguities_repaired: 0,
        ambiguities_discarded: 0,
        corruptions_discarded: 0,
        cfi_eval_corruptions: 0,
    };
    let mbase: u64 = kani::any();
    let module = minidump::MinidumpModule::new(mbase, 0x1000, "m");
    let mut fr = Rec { ins: kani::any(), func: None, calls: 0 };
    sf.fill_symbol(&module, &mut fr);
    // reference
    let want: Option<(u64, u32)> = if fr.ins < mbase {
        None
    } else {
        let addr = fr.ins - mbase;
        if f0a <= addr && addr <= f0e {
            Some((f0a, 10))
        } else if f1a <= addr && addr <= f1e {
            Some((f1a, 11))
        } else {
            // nearest PUBLIC at or before addr
            let cand = if p1 <= addr {
                Some((p1, 21))
            } else if p0 <= addr {
                Some((p0, 20))
            } else {
                None
            };
            match cand {
                Some((pa, ps)) => {
                    let cut = (pa <= f0a && f0a <= addr) || (pa <= f1a && f1a <= addr);
                    if cut {
                        None
                    } else {
                        Some((pa, ps))
                    }
                }
                None => None,
            }
        }
    };
    kani::cover!(matches!(want, Some((_, 10))), "first FUNC reported");
    kani::cover!(matches!(want, Some((_, 21))), "a PUBLIC reported");
    kani::cover!(want.is_none() && fr.ins >= mbase && p0 <= fr.ins - mbase, "PUBLIC cut off by a FUNC");
    match (fr.func, want) {
        (Some((b, ps)), Some((a, wps))) => {
            assert!(fr.calls == 1);
            assert!(b == a + mbase);
            assert!(ps == wps);
            assert!(b <= fr.ins);
        }
        (None, None) => {}
        _ => assert!(false),
    }
    std::mem::forget(sf);
    std::mem::forget(module);
}

/// M: 16
/// F: breakpad_symbols::SymbolFile::fill_symbol: parameter-size preference (STACK WIN framedata record covering the address, else FPO record covering the address, else the FUNC record's own value)
/// I: one FUNC record, one STACK WIN framedata record and one FPO record with symbolic ranges inside/around it and symbolic parameter sizes; module base and instruction symbolic
/// B: 1 FUNC, 1 framedata, 1 FPO record; empty name tables
/// A: HashMap::new's random keys replaced by constants (maps stay empty)
/// O: the reported parameter size is that of the framedata record containing the *instruction's* module-relative address, else of the FPO record containing it, else the FUNC's; the function base is FUNC address + module base
#[kani::proof]
#[kani::unwind(6)]
#[kani::stub(std::hash::RandomState::new, fixed_random_state)]
fn c11_q_fill_symbol_parameter_size_preference() {
    use breakpad_symbols::verif::{StackInfoWin, WinStackThing};
    let fa: u64 = kani::any();
    let fs: u32 = kani::any();
    kani::assume(fs > 0);
    let fe = fa.checked_add(fs as u64 - 1);
    kani::assume(fe.is_some() && fe.unwrap() < u64::MAX);
    let fe = fe.unwrap();
    let win = |addr: u64, size: u32, ps: u32| StackInfoWin {
        address: addr,
        size,
        prologue_size: 0,
        epilogue_size: 0,
        parameter_size: ps,
        saved_register_size: 0,
        local_size: 0,
        max_stack_size: 0,
        program_string_or_base_pointer: WinStackThing::AllocatesBasePointer(false),
    };
    let (da, ds): (u64, u32) = (kani::any(), kani::any());
    let (pa, ps): (u64, u32) = (kani::any(), kani::any());
    kani::assume(ds > 0 && ps > 0);
    let de = da.checked_add(ds as u64 - 1);
    let pe = pa.checked_add(ps as u64 - 1);
    kani::assume(de.is_some() && pe.is_some() && de.unwrap() < u64::MAX && pe.unwrap() < u64::MAX);
    let (de, pe) = (de.unwrap(), pe.unwrap());
    let sf = SymbolFile {
        module_id: String::new(),
        debug_file: String::new(),
        files: std::collections::HashMap::new(),
        publics: Vec::new(),
        functions: RangeMap::try_from_iter(vec![(Range::new(fa, fe), func(fa, fs, 10))]).unwrap(),
        inline_origins: std::collections::HashMap::new(),
        cfi_stack_info: RangeMap::new(),
        win_stack_framedata_info: RangeMap::try_from_iter(vec![(Range::new(da, de), win(da, ds, 20))]).unwrap(),
        win_stack_fpo_info: RangeMap::try_from_iter(vec![(Range::new(pa, pe), win(pa, ps, 30))]).unwrap(),
        url: None,
        ambiguities_repaired: 0,
        ambiguities_discarded: 0,
        corruptions_discarded: 0,
        cfi_eval_corruptions: 0,
    };
    let mbase: u64 = kani::any();
    let module = minidump::MinidumpModule::new(mbase, 0x1000, "m");
    let mut fr = Rec { ins: kani::any(), func: None, calls: 0 };
    sf.fill_symbol(&module, &mut fr);
    if fr.ins >= mbase {
        let addr = fr.ins - mbase;
        if fa <= addr && addr <= fe {
            let want_ps = if da <= addr && addr <= de {
                20
            } else if pa <= addr && addr <= pe {
                30
            } else {
                10
            };
            kani::cover!(want_ps == 30 && !(da <= fa && fa <= de), "FPO record decides");
            assert!(fr.func == Some((fa + mbase, want_ps)));
        } else {
            assert!(fr.func.is_none());
        }
    } else {
        assert!(fr.func.is_none());
    }
    std::mem::forget(sf);
    std::mem::forget(module);
}
