//! C19 — bit-flip candidates: confidence, heuristics and the single-bit kernel.
use minidump::format::CONTEXT_AMD64;
use minidump::{MinidumpContext, MinidumpContextValidity, MinidumpRawContext, UnifiedMemoryInfoList};
use minidump_processor::memory_operation::MemoryOperation;
use minidump_processor::verif::{try_bit_flips, BitRange};
use minidump_processor::{BitFlipDetails, PossibleBitFlip};

/// F: minidump_processor::BitFlipDetails::confidence (+ confidence::combine)
/// I: the four flags and nearby_registers (full u32); f32 arithmetic is bit-precise
/// B: none
/// O: the confidence is a number in [0, 1] (not NaN), no panic (index into NEARBY_REGISTER)
#[kani::proof]
#[kani::unwind(8)]
fn c19_q_confidence_in_unit_interval() {
    let d = BitFlipDetails {
        was_non_canonical: kani::any(),
        is_null: kani::any(),
        was_low: kani::any(),
        nearby_registers: kani::any(),
        poison_registers: kani::any(),
    };
    let c = d.confidence();
    kani::cover!(d.nearby_registers > 4, "more nearby registers than table entries");
    assert!(c >= 0.0 && c <= 1.0);
}

fn any_range() -> BitRange {
    match kani::any::<u8>() % 3 {
        0 => BitRange::All,
        1 => BitRange::Amd64Canononical,
        _ => BitRange::Amd64NonCanonical,
    }
}
fn any_op() -> MemoryOperation {
    match kani::any::<u8>() % 4 {
        0 => MemoryOperation::Undetermined,
        1 => MemoryOperation::Read,
        2 => MemoryOperation::Write,
        _ => MemoryOperation::Execute,
    }
}

/// `BitFlipDetails::confidence` is decided for every details value by its own harness; inside the
/// 16..64-iteration loop its f32 products (with NaN checks) exhaust memory, so it is replaced here.
pub fn stub_confidence(_d: &BitFlipDetails) -> f32 {
    0.5
}

fn check_unmapped(range: BitRange, lo: u32, hi: u32) {
    let address: u64 = kani::any();
    let mi = UnifiedMemoryInfoList::default();
    let r = try_bit_flips(address, None, range, None, &mi, MemoryOperation::Undetermined);
    // the examined value is a single bit inside the range (written as a search so that the
    // solver does not have to relate a population count to the implementation's loop)
    let mut expect = false;
    let mut k = lo;
    while k < hi {
        if address == 1u64 << k {
            expect = true;
        }
        k += 1;
    }
    kani::cover!(r.len() == 1, "a null candidate was reported");
    assert!(r.len() == if expect { 1 } else { 0 });
    if r.len() == 1 {
        let p = &r[0];
        assert!(p.address.0 == 0);
        let diff = p.address.0 ^ address;
        let mut inside = false;
        let mut k = lo;
        while k < hi {
            if diff == 1u64 << k {
                inside = true;
            }
            k += 1;
        }
        assert!(inside);
        assert!(p.details.is_null);
        assert!(p.details.was_non_canonical == matches!(range, BitRange::Amd64NonCanonical));
        // (the confidence value itself is decided for every details value by c19_q_confidence_in_unit_interval)
        assert!(p.confidence.is_some());
    }
    std::mem::forget(r);
    std::mem::forget(mi);
}

// NOTE: the full-loop harnesses (try_bit_flips over every examined address against the reference
// "single bit inside the range") do not fit: the result vector is pushed to under a symbolic condition
// in each of the 16..64 iterations and CBMC's propositional encoding of the possible re-allocations
// grows past 45 GB (measured).  What is decided instead: the bit ranges themselves, the confidence
// function for every input, the per-candidate heuristics, and (witness) that a candidate is reachable.

/// F: minidump_processor::memory_operation::MemoryOperation::{is_possibly_allowed_for, is_allowed_for, from_crash_reason}, MinidumpMemoryInfo::{is_readable, is_writable, is_executable} through UnifiedMemoryInfo
/// I: the region's protection word (full u32); the crashing operation (4 variants)
/// B: one region
/// A: the region value is built from all-zero bytes plus the protection field (its other fields are not consulted)
/// O: a candidate region permits the crashing kind of access exactly per the Windows page-protection constants: read = READONLY|READWRITE|EXECUTE_READ|EXECUTE_READWRITE, write = READWRITE|WRITECOPY|EXECUTE_READWRITE|EXECUTE_WRITECOPY, execute = any EXECUTE*; an undetermined operation is possibly allowed everywhere and definitely allowed nowhere; a Windows access violation of kind read / write / execute gives that operation, any other crash reason gives undetermined
#[kani::proof]
fn c19_q_memory_operation_permissions() {
    let mut mi: minidump::MinidumpMemoryInfo = unsafe { std::mem::zeroed() };
    let bits: u32 = kani::any();
    mi.protection = minidump::format::MemoryProtection::from_bits_retain(bits);
    let u = minidump::UnifiedMemoryInfo::Info(&mi);
    let r = bits & (0x02 | 0x04 | 0x20 | 0x40) != 0;
    let w = bits & (0x04 | 0x08 | 0x40 | 0x80) != 0;
    let x = bits & (0x10 | 0x20 | 0x40 | 0x80) != 0;
    assert!(MemoryOperation::Read.is_possibly_allowed_for(&u) == r);
    assert!(MemoryOperation::Write.is_possibly_allowed_for(&u) == w);
    assert!(MemoryOperation::Execute.is_possibly_allowed_for(&u) == x);
    assert!(MemoryOperation::Undetermined.is_possibly_allowed_for(&u));
    assert!(MemoryOperation::Read.is_allowed_for(&u) == r);
    assert!(MemoryOperation::Write.is_allowed_for(&u) == w);
    assert!(MemoryOperation::Execute.is_allowed_for(&u) == x);
    assert!(!MemoryOperation::Undetermined.is_allowed_for(&u));
    kani::cover!(r && !w, "a readable but not writable region");
    // the kind of access is taken from the crash reason: only Windows access violations say which
    use minidump::CrashReason;
    use minidump_common::errors::ExceptionCodeWindowsAccessType as A;
    assert!(MemoryOperation::from_crash_reason(&CrashReason::WindowsAccessViolation(A::READ)) == MemoryOperation::Read);
    assert!(MemoryOperation::from_crash_reason(&CrashReason::WindowsAccessViolation(A::WRITE)) == MemoryOperation::Write);
    assert!(MemoryOperation::from_crash_reason(&CrashReason::WindowsAccessViolation(A::EXEC)) == MemoryOperation::Execute);
    assert!(MemoryOperation::from_crash_reason(&CrashReason::Unknown(kani::any(), kani::any())) == MemoryOperation::Undetermined);
    assert!(MemoryOperation::from_crash_reason(&CrashReason::WindowsUnknown(kani::any())) == MemoryOperation::Undetermined);
}

/// F: minidump_processor::processor::bitflip::BitRange::range
/// I: none (three variants enumerated)
/// B: none
/// O: the platform bit ranges are exactly All = 0..64, canonical amd64 = 0..48, non-canonical amd64 = 48..64
#[kani::proof]
fn c19_q_bit_range_bounds() {
    let a = BitRange::All.range();
    let c = BitRange::Amd64Canononical.range();
    let n = BitRange::Amd64NonCanonical.range();
    assert!(a.start == 0 && a.end == 64);
    assert!(c.start == 0 && c.end == 48);
    assert!(n.start == 48 && n.end == 64);
}

/// T: 1200
/// F: minidump_processor::PossibleBitFlip::calculate_heuristics (with an amd64 exception context), BitFlipDetails::confidence
/// I: candidate address, original address, non-canonical flag, all 17 amd64 registers symbolic (validity All)
/// B: one candidate, 17 registers
/// O: no arithmetic overflow in the nearby/poison computations; nearby_registers <= 17; is_null/was_low follow their definitions; the stored confidence lies in [0,1]
#[kani::proof]
#[kani::unwind(20)]
fn c19_t_calculate_heuristics_amd64() {
    let mut c: CONTEXT_AMD64 = unsafe { std::mem::zeroed() };
    c.rax = kani::any();
    c.rdx = kani::any();
    c.rcx = kani::any();
    c.rbx = kani::any();
    c.rsi = kani::any();
    c.rdi = kani::any();
    c.rbp = kani::any();
    c.rsp = kani::any();
    c.r8 = kani::any();
    c.r9 = kani::any();
    c.r10 = kani::any();
    c.r11 = kani::any();
    c.r12 = kani::any();
    c.r13 = kani::any();
    c.r14 = kani::any();
    c.r15 = kani::any();
    c.rip = kani::any();
    let ctx = MinidumpContext::from_raw(MinidumpRawContext::Amd64(c));
    let addr: u64 = kani::any();
    let orig: u64 = kani::any();
    let nc: bool = kani::any();
    let mut p = PossibleBitFlip::new(addr, None);
    p.calculate_heuristics(orig, nc, Some(&ctx));
    assert!(p.details.nearby_registers <= 17);
    assert!(p.details.is_null == (addr == 0));
    assert!(p.details.was_low == (addr == 0 && orig <= 8192));
    assert!(p.details.was_non_canonical == nc);
    let conf = p.confidence.unwrap();
    assert!(conf >= 0.0 && conf <= 1.0);
    std::mem::forget(ctx);
}

/// Reachability witness.
#[kani::proof]
#[kani::unwind(18)]
#[kani::stub(minidump_processor::BitFlipDetails::confidence, stub_confidence)]
fn c19_w_candidate_reachable() {
    let address: u64 = kani::any();
    let mi = UnifiedMemoryInfoList::default();
    let r = try_bit_flips(address, None, BitRange::Amd64NonCanonical, None, &mi, MemoryOperation::Undetermined);
    if r.len() == 1 {
        assert!(false);
    }
    std::mem::forget(r);
    std::mem::forget(mi);
}

#[path = "../playback/c19_bitflip.rs"]
mod playback;
