#!/usr/bin/env python3
"""Generate src/c06_gen.rs: STACK CFI programs (shape enumerated) x symbolic machine state (values solved).

Each program is emitted as a `&'static str` literal together with its token codes
for the reference interpreter; PER programs per harness, as straight-line calls.
"""
import itertools, os
HERE = os.path.dirname(os.path.abspath(__file__))
OUT = os.path.join(HERE, "..", "src", "c06_gen.rs")

def write_if_changed(path, text):
    # counterexamples of generated harnesses are replayed through the same playback module mechanism as hand-written ones
    text = text.rstrip("\n") + '\n\n#[path = "../playback/c06_gen.rs"]\nmod playback;\n'
    try:
        if open(path).read() == text:
            return
    except OSError:
        pass
    tmp = path + ".tmp%d" % os.getpid()
    open(tmp, "w").write(text)
    os.replace(tmp, path)

PER = 24
TOK = {
    "+": "T::Add", "-": "T::Sub", "*": "T::Mul", "/": "T::Div", "%": "T::Mod", "@": "T::Align", "^": "T::Deref",
    ".cfa": "T::Cfa", ".undef": "T::Undef", "$rax": "T::Rax", "rbx": "T::Rbx",
    "0": "T::Lit(0)", "1": "T::Lit(1)", "8": "T::Lit(8)", "-8": "T::Lit(-8)", "16": "T::Lit(16)", "2": "T::Lit(2)", "4": "T::Lit(4)",
    "9223372036854775807": "T::Lit(9223372036854775807)", "-9223372036854775808": "T::Lit(-9223372036854775808)",
    "9223372036854775808": "T::Bad", "x$y": "T::Bad", "junk": "T::Bad", "$rcx": "T::Bad", "rcx": "T::Bad", ".ra": "T::Bad", "8x": "T::Bad",
}
CORE = ["+", "-", "*", "/", "%", "@", "^", ".cfa", "$rax", "rbx", "8", "-8"]
FULL = CORE + [".undef", "0", "1", "16", "9223372036854775807", "9223372036854775808", "x$y", "junk"]
OPS2 = ["+", "-", "*", "/", "%", "@"]
VALS = [".cfa", "$rax", "rbx", "8", "-8"]

def seqs(alpha, L):
    for l in range(1, L + 1):
        for p in itertools.product(alpha, repeat=l):
            yield list(p)

CURATED = [
    "$rax 8 + ^", ".cfa 8 - ^", ".cfa -8 + ^", "$rax 16 + 8 - ^", ".cfa 4 - ^ 16 @", "$rax rbx + 2 * 4 /", "$rax 1 - 16 @ 8 +",
    "$rax rbx * rbx /", "$rax rbx % 1 +", ".cfa ^ ^", "$rax ^ rbx ^ +", "8 8 8 + +", "8 8 + 8", "8 + 8", "$rax .undef +", ".undef",
    "$rax 0 /", "$rax 0 %", "$rax 0 @", "$rax 1 @", "$rax 9223372036854775807 @", "-9223372036854775808 -8 /", "-8 2 /", "-8 2 %",
    "$rax -8 /", "$rax -8 @", "9223372036854775807 1 +", "-9223372036854775808 1 -", "$rax 9223372036854775808 +", "$rcx 8 +", "rcx 8 +",
    ".ra 8 +", "8x", "$rax junk +", "x$y", ".cfa .cfa -",
    ".cfa 16 + ^ 8 - ^", "$rax 4 * rbx + 8 - ^", "1 2 4 8 16 + + + +", "16 8 4 2 1 - - - -", "$rax rbx @", "$rax rbx /", "rbx $rax %",
]

# white-space handling is decided in a harness of its own (token separation by runs of blanks, tabs and newlines,
# leading/trailing blanks, the empty program)
WHITESPACE = ["  $rax   8   +  ", "$rax\t8\n+", "$rax  8 +", "", " "]

def tokens_of(text):
    return text.split()

SYMBOLIC = {".cfa", "$rax", "rbx", "^"}
HARD_OPS = {"*", "/", "%"}

EASY_FACTORS = {0, 1, 2, 4, 8, 16}

def is_hard(p):
    """Programs whose comparison with the reference needs the equivalence of two 64-bit
    multiplier/divider circuits (measured: `$rax -8 *`, `$rax rbx /`, `$rax rbx %`, `rbx rbx *`
    do not finish in 200 s at full width, and finish in 1-7 s with 12-bit operands): `/` or `%`
    unless the divisor is a small power-of-two literal, `*` unless one factor is such a literal.
    They run with every symbolic source narrowed to 12 bits."""
    st = []  # abstract stack: "lit:<v>" or "sym"
    for t in tokens_of(p):
        code = TOK.get(t, "T::Bad")
        if t in ("+", "-", "*", "/", "%", "@"):
            if len(st) < 2:
                return False
            r = st.pop(); l = st.pop()
            def small(x):
                return x.startswith("lit:") and int(x[4:]) in EASY_FACTORS
            if t in ("/", "%") and not (small(r) and int(r[4:]) > 0):
                return True
            if t == "*" and not (small(l) or small(r)):
                return True
            st.append("sym")
        elif t == "^":
            if not st:
                return False
            st.pop(); st.append("sym")
        elif code.startswith("T::Lit("):
            st.append("lit:" + code[7:-1])
        elif t in (".cfa", "$rax", "rbx"):
            st.append("sym")
        else:
            return False
    return False

EXCLUDED = []

def is_excluded(p):
    """Measured not to finish in 200-400 s even one program per harness with 12-bit operands
    (isolated 2026-10-03): (1) any literal of more than 15 digits - `i64::from_str` takes its
    overflow-checked path and symbolic execution of that loop does not finish; (2) `/` or `%` with
    a non-literal divisor and a literal dividend outside {0,1,2,4,8,16} (e.g. `-8 $rax %`);
    (3) two hard operators chained (`$rax rbx * rbx /`).  They are left out of both tiers and
    listed in the evidence notes."""
    toks = tokens_of(p)
    if any(len(t.lstrip("-")) > 15 and t.lstrip("-").isdigit() for t in toks):
        return True
    st = []
    hard_ops = 0
    for t in toks:
        code = TOK.get(t, "T::Bad")
        if t in ("+", "-", "*", "/", "%", "@"):
            if len(st) < 2:
                return False
            r = st.pop(); l = st.pop()
            def small(x):
                return x.startswith("lit:") and int(x[4:]) in EASY_FACTORS
            if t in ("/", "%"):
                if not (small(r) and int(r[4:]) > 0):
                    hard_ops += 1
                    if r == "sym" and l.startswith("lit:") and not small(l):
                        return True
            if t == "*" and not (small(l) or small(r)):
                hard_ops += 1
            st.append("sym")
        elif t == "^":
            if not st:
                return False
            st.pop(); st.append("sym")
        elif code.startswith("T::Lit("):
            st.append("lit:" + code[7:-1])
        elif t in (".cfa", "$rax", "rbx"):
            st.append("sym")
        else:
            return False
    return hard_ops >= 2

def emit(progs, tier, tag, out, counter):
    EXCLUDED.extend(p for p in progs if is_excluded(p))
    progs = [p for p in progs if not is_excluded(p)]
    easy = [p for p in progs if not is_hard(p)]
    hard = [p for p in progs if is_hard(p)]
    _emit(easy, tier, tag, out, counter, False)
    _emit(hard, tier, tag + "_narrow", out, counter, True)

def _emit(progs, tier, tag, out, counter, narrow):
    # a 3-token program costs about 8 s of symbolic execution, a 2-token one 3-4 s: keep the longest harness near 100 s
    per = 2 if narrow else (PER // 2 if tier == "q" and not tag.startswith("core_len2") else PER)
    for gi in range(0, len(progs), per):
        grp = progs[gi:gi + per]
        hn = f"c06_{tier}_{tag}_{gi // per:03d}"
        out.append("/// F: breakpad_symbols::sym_file::walker::eval_cfi_expr")
        out.append("/// I: callee registers rax/rbx (each u64 or unknown), CFA (u64 or unavailable), two readable memory cells at symbolic addresses with symbolic contents; programs: " + " | ".join(repr(p) for p in grp).replace("\\", "\\\\")[:600])
        out.append("/// B: the listed program texts (token sequence fixed, all numeric state symbolic)" + ("; A: these programs divide by something other than a power-of-two literal, or multiply two non-literal operands: registers, CFA and memory contents are below 4096 here (equivalence of two 64-bit multiplier/divider circuits is out of reach for SAT); the same operators are decided at full width with power-of-two literal divisors / literal factors in the other harnesses" if narrow else ""))
        out.append("/// O: result equals the reference interpreter of the documented postfix language (64-bit wrapping, unsigned / and %, @ power-of-two rule, failures -> None); no panic")
        out.append("#[kani::proof]")
        out.append("#[kani::unwind(40)]")
        out.append(f"fn {hn}() {{")
        out.append("    let mut w = W::any();")
        out.append("    let cfa: Option<u64> = kani::any();")
        if narrow:
            out.append("    // hard arithmetic (see gen/c06_programs.py::is_hard): every symbolic source is narrowed to 12 bits")
            out.append("    kani::assume(w.rax.map_or(true, |v| v < 4096));")
            out.append("    kani::assume(w.rbx.map_or(true, |v| v < 4096));")
            out.append("    kani::assume(cfa.map_or(true, |v| v < 4096));")
            out.append("    kani::assume(w.v0 < 4096 && w.v1 < 4096);")
        for p in grp:
            toks = tokens_of(p)
            codes = ", ".join(TOK[t] for t in toks)
            lit = p.replace("\\", "\\\\").replace("\t", "\\t").replace("\n", "\\n")
            out.append(f"    check_prog(&mut w, cfa, \"{lit}\", &[{codes}]);")
        out.append("}")
        out.append("")
        counter[0] += 1

out = ["// @generated by gen/c06_programs.py -- do not edit.", "use super::c06_support::*;", ""]
cnt = [0]
nprog = {}
core2 = [" ".join(s) for s in seqs(CORE, 2)]
wf3 = [f"{a} {b} {op}" for a in VALS for b in VALS for op in OPS2]
# quick tier: every operator over a 3 x 3 operand grid (register / CFA / literal on the left, bare-name register /
# literal / negative literal on the right); the remaining 96 operand pairs of the full 5 x 5 grid are thorough-tier
wf3_q = [f"{a} {b} {op}" for a in ["$rax", ".cfa", "8"] for b in ["rbx", "8", "-8"] for op in OPS2]
wf3_t = [p for p in wf3 if p not in set(wf3_q)]
quick = core2 + wf3_q + CURATED + WHITESPACE
# most expensive groups first: cargo-kani starts harnesses in the order given
emit(wf3_q, "q", "binop3", out, cnt)
emit(CURATED, "q", "curated", out, cnt)
emit(WHITESPACE, "q", "whitespace", out, cnt)
emit(core2, "q", "core_len2", out, cnt)
nprog["quick"] = len(quick)
seen = set(quick)
emit(wf3_t, "t", "binop3", out, cnt)
seen |= set(wf3_t)
core3 = [" ".join(s) for s in seqs(CORE, 3) if len(s) == 3 and " ".join(s) not in seen]
full2 = [" ".join(s) for s in seqs(FULL, 2) if " ".join(s) not in seen]
emit(core3, "t", "core_len3", out, cnt)
emit(full2, "t", "full_len2", out, cnt)
nprog["thorough_extra"] = len(wf3_t) + len(core3) + len(full2)
out += ["/// Reachability witness: a well-formed program must be able to succeed.", "#[kani::proof]", "#[kani::unwind(40)]",
        "fn c06_w_success_reachable() {", "    let mut w = W::any();", "    let cfa: Option<u64> = kani::any();",
        "    let r = breakpad_symbols::verif::walker::eval_cfi_expr(\".cfa 8 - ^\", &mut w, cfa);", "    if r.is_some() {", "        assert!(false);", "    }", "}", ""]
out_ex = ["// programs left out of both tiers (see gen/c06_programs.py::is_excluded):"] + ["//   " + repr(p) for p in EXCLUDED]
write_if_changed(OUT, "\n".join(out + out_ex) + "\n")
out_ex = ["// programs left out of both tiers (see gen/c06_programs.py::is_excluded):"] + ["//   " + repr(p) for p in EXCLUDED]
print(f"c06: generated {cnt[0]} harnesses, programs: {nprog}, excluded as intractable: {len(EXCLUDED)}")
