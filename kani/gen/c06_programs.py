#!/usr/bin/env python3
"""Generate src/c06_gen.rs: STACK CFI programs (shape enumerated) x symbolic machine state (values solved).

Each program is emitted as a `&'static str` literal together with its token codes
for the reference interpreter; PER programs per harness, as straight-line calls.
"""
import itertools, os
HERE = os.path.dirname(os.path.abspath(__file__))
OUT = os.path.join(HERE, "..", "src", "c06_gen.rs")

def write_if_changed(path, text):
    try:
        if open(path).read() == text:
            return
    except OSError:
        pass
    tmp = path + ".tmp%d" % os.getpid()
    open(tmp, "w").write(text)
    os.replace(tmp, path)

PER = 8
TOK = {
    "+": "T::Add", "-": "T::Sub", "*": "T::Mul", "/": "T::Div", "%": "T::Mod", "@": "T::Align", "^": "T::Deref",
    ".cfa": "T::Cfa", ".undef": "T::Undef", "$rax": "T::Rax", "rbx": "T::Rbx",
    "0": "T::Lit(0)", "1": "T::Lit(1)", "8": "T::Lit(8)", "-8": "T::Lit(-8)", "16": "T::Lit(16)", "2": "T::Lit(2)", "4": "T::Lit(4)",
    "9223372036854775807": "T::Lit(9223372036854775807)", "-9223372036854775808": "T::Lit(-9223372036854775808)",
    "9223372036854775808": "T::Bad", "x$y": "T::Bad", "junk": "T::Bad", "$rcx": "T::Bad", "rcx": "T::Bad", ".ra": "T::Bad", "8x": "T::Bad",
}
CORE = ["+", "-", "*", "/", "%", "@", "^", ".cfa", "$rax", "rbx", "8", "-8"]
FULL = CORE + [".undef", "0", "1", "16", "9223372036854775807", "9223372036854775808", "x$y", "junk"]
OPS2 = ["+", "-", "*", "/", "%", "@"]
VALS = [".cfa", "$rax", "rbx", "8", "-8"]

def seqs(alpha, L):
    for l in range(1, L + 1):
        for p in itertools.product(alpha, repeat=l):
            yield list(p)

CURATED = [
    "$rax 8 + ^", ".cfa 8 - ^", ".cfa -8 + ^", "$rax 16 + 8 - ^", ".cfa 4 - ^ 16 @", "$rax rbx + 2 * 4 /", "$rax 1 - 16 @ 8 +",
    "$rax rbx * rbx /", "$rax rbx % 1 +", ".cfa ^ ^", "$rax ^ rbx ^ +", "8 8 8 + +", "8 8 + 8", "8 + 8", "$rax .undef +", ".undef",
    "$rax 0 /", "$rax 0 %", "$rax 0 @", "$rax 1 @", "$rax 9223372036854775807 @", "-9223372036854775808 -8 /", "-8 2 /", "-8 2 %",
    "$rax -8 /", "$rax -8 @", "9223372036854775807 1 +", "-9223372036854775808 1 -", "$rax 9223372036854775808 +", "$rcx 8 +", "rcx 8 +",
    ".ra 8 +", "8x", "$rax junk +", "x$y", ".cfa .cfa -", "  $rax   8   +  ", "$rax\t8\n+", "", " ",
    ".cfa 16 + ^ 8 - ^", "$rax 4 * rbx + 8 - ^", "1 2 4 8 16 + + + +", "16 8 4 2 1 - - - -", "$rax rbx @", "$rax rbx /", "rbx $rax %",
]

def tokens_of(text):
    return text.split()

SYMBOLIC = {".cfa", "$rax", "rbx", "^"}
HARD_OPS = {"*", "/", "%"}

def is_hard(p):
    """Programs whose reference comparison needs the equivalence of two 64-bit multiplier/divider
    circuits (out of reach for SAT): `/` or `%` with a divisor that is not a power-of-two literal,
    `*` of two non-literal operands.  They run with every symbolic source narrowed to 12 bits."""
    st = []  # abstract stack: "lit:<v>" or "sym"
    for t in tokens_of(p):
        code = TOK.get(t, "T::Bad")
        if t in ("+", "-", "*", "/", "%", "@"):
            if len(st) < 2:
                return False
            r = st.pop(); l = st.pop()
            if t in ("/", "%"):
                pow2 = r.startswith("lit:") and int(r[4:]) > 0 and (int(r[4:]) & (int(r[4:]) - 1)) == 0
                if not pow2 and (l == "sym" or r == "sym"):
                    return True
            if t == "*" and l == "sym" and r == "sym":
                return True
            st.append("sym" if "sym" in (l, r) else "lit:0")
        elif t == "^":
            if not st:
                return False
            st.pop(); st.append("sym")
        elif code.startswith("T::Lit("):
            st.append("lit:" + code[7:-1])
        elif t in (".cfa", "$rax", "rbx"):
            st.append("sym")
        else:
            return False
    return False

def emit(progs, tier, tag, out, counter):
    easy = [p for p in progs if not is_hard(p)]
    hard = [p for p in progs if is_hard(p)]
    _emit(easy, tier, tag, out, counter, False)
    _emit(hard, tier, tag + "_narrow", out, counter, True)

def _emit(progs, tier, tag, out, counter, narrow):
    for gi in range(0, len(progs), PER):
        grp = progs[gi:gi + PER]
        hn = f"c06_{tier}_{tag}_{gi // PER:03d}"
        out.append("/// F: breakpad_symbols::sym_file::walker::eval_cfi_expr")
        out.append("/// I: callee registers rax/rbx (each u64 or unknown), CFA (u64 or unavailable), two readable memory cells at symbolic addresses with symbolic contents; programs: " + " | ".join(repr(p) for p in grp).replace("\\", "\\\\")[:600])
        out.append("/// B: the listed program texts (token sequence fixed, all numeric state symbolic)" + ("; A: these programs divide by something other than a power-of-two literal, or multiply two non-literal operands: registers, CFA and memory contents are below 4096 here (equivalence of two 64-bit multiplier/divider circuits is out of reach for SAT); the same operators are decided at full width with power-of-two literal divisors / literal factors in the other harnesses" if narrow else ""))
        out.append("/// O: result equals the reference interpreter of the documented postfix language (64-bit wrapping, unsigned / and %, @ power-of-two rule, failures -> None); no panic")
        out.append("#[kani::proof]")
        out.append("#[kani::unwind(40)]")
        out.append(f"fn {hn}() {{")
        out.append("    let mut w = W::any();")
        out.append("    let cfa: Option<u64> = kani::any();")
        if narrow:
            out.append("    // hard arithmetic (see gen/c06_programs.py::is_hard): every symbolic source is narrowed to 12 bits")
            out.append("    kani::assume(w.rax.map_or(true, |v| v < 4096));")
            out.append("    kani::assume(w.rbx.map_or(true, |v| v < 4096));")
            out.append("    kani::assume(cfa.map_or(true, |v| v < 4096));")
            out.append("    kani::assume(w.v0 < 4096 && w.v1 < 4096);")
        for p in grp:
            toks = tokens_of(p)
            codes = ", ".join(TOK[t] for t in toks)
            lit = p.replace("\\", "\\\\").replace("\t", "\\t").replace("\n", "\\n")
            out.append(f"    check_prog(&mut w, cfa, \"{lit}\", &[{codes}]);")
        out.append("}")
        out.append("")
        counter[0] += 1

out = ["// @generated by gen/c06_programs.py -- do not edit.", "use super::c06_support::*;", ""]
cnt = [0]
nprog = {}
core2 = [" ".join(s) for s in seqs(CORE, 2)]
wf3 = [f"{a} {b} {op}" for a in VALS for b in VALS for op in OPS2]
quick = core2 + wf3 + CURATED
emit(core2, "q", "core_len2", out, cnt)
emit(wf3, "q", "binop3", out, cnt)
emit(CURATED, "q", "curated", out, cnt)
nprog["quick"] = len(quick)
seen = set(quick)
core3 = [" ".join(s) for s in seqs(CORE, 3) if len(s) == 3 and " ".join(s) not in seen]
full2 = [" ".join(s) for s in seqs(FULL, 2) if " ".join(s) not in seen]
emit(core3, "t", "core_len3", out, cnt)
emit(full2, "t", "full_len2", out, cnt)
nprog["thorough_extra"] = len(core3) + len(full2)
out += ["/// Reachability witness: a well-formed program must be able to succeed.", "#[kani::proof]", "#[kani::unwind(40)]",
        "fn c06_w_success_reachable() {", "    let mut w = W::any();", "    let cfa: Option<u64> = kani::any();",
        "    let r = breakpad_symbols::verif::walker::eval_cfi_expr(\".cfa 8 - ^\", &mut w, cfa);", "    if r.is_some() {", "        assert!(false);", "    }", "}", ""]
write_if_changed(OUT, "\n".join(out) + "\n")
print(f"c06: generated {cnt[0]} harnesses, programs: {nprog}")
