// playback tests are written here by /verif/check during replay and removed afterwards
#[allow(unused_imports)]
use super::*;
