use proc_macro::TokenStream;
#[proc_macro_attribute]
pub fn instrument(_attr: TokenStream, item: TokenStream) -> TokenStream { item }
