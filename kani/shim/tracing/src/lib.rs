//! Verification shim: logging macros have empty bodies, `instrument` is the identity.
pub use verif_tracing_attr::instrument;
#[macro_export] macro_rules! trace { ($($t:tt)*) => {{}}; }
#[macro_export] macro_rules! debug { ($($t:tt)*) => {{}}; }
#[macro_export] macro_rules! info { ($($t:tt)*) => {{}}; }
#[macro_export] macro_rules! warn { ($($t:tt)*) => {{}}; }
#[macro_export] macro_rules! error { ($($t:tt)*) => {{}}; }
