#![allow(dead_code)]
use breakpad_symbols::walker::walk_with_stack_cfi;
use breakpad_symbols::{CfiRules, FrameWalker};

pub struct W {
    pub rsp: u64,
    pub rbp: u64,
    pub mem_addr: u64,
    pub mem_val: u64,
    pub mem_ok: bool,
    pub cfa: Option<u64>,
    pub ra: Option<u64>,
    pub out_rbp: Option<u64>,
    pub cleared_rbp: bool,
}
impl FrameWalker for W {
    fn get_instruction(&self) -> u64 { 0 }
    fn has_grand_callee(&self) -> bool { false }
    fn get_grand_callee_parameter_size(&self) -> u32 { 0 }
    fn get_register_at_address(&self, a: u64) -> Option<u64> {
        if self.mem_ok && a == self.mem_addr { Some(self.mem_val) } else { None }
    }
    fn get_callee_register(&self, name: &str) -> Option<u64> {
        match name { "rsp" => Some(self.rsp), "rbp" => Some(self.rbp), _ => None }
    }
    fn set_caller_register(&mut self, name: &str, val: u64) -> Option<()> {
        match name { "rbp" => { self.out_rbp = Some(val); Some(()) } _ => None }
    }
    fn clear_caller_register(&mut self, name: &str) { if name == "rbp" { self.cleared_rbp = true; } }
    fn set_cfa(&mut self, v: u64) -> Option<()> { self.cfa = Some(v); Some(()) }
    fn set_ra(&mut self, v: u64) -> Option<()> { self.ra = Some(v); Some(()) }
}

#[cfg(kani)]
#[kani::proof]
#[kani::unwind(40)]
fn cfi_concrete_prog() {
    let mut w = W { rsp: kani::any(), rbp: kani::any(), mem_addr: kani::any(), mem_val: kani::any(), mem_ok: kani::any(),
        cfa: None, ra: None, out_rbp: None, cleared_rbp: false };
    let init = CfiRules { address: 0, rules: String::from(".cfa: $rsp 16 + .ra: .cfa 8 - ^") };
    let r = walk_with_stack_cfi(&init, &[], &mut w);
    let cfa = w.rsp.wrapping_add(16);
    let exp_ra = if w.mem_ok && cfa.wrapping_sub(8) == w.mem_addr { Some(w.mem_val) } else { None };
    if let Some(ra) = exp_ra {
        assert!(r.is_some());
        assert_eq!(w.cfa, Some(cfa));
        assert_eq!(w.ra, Some(ra));
    } else {
        assert!(r.is_none());
    }
}

#[cfg(kani)]
#[kani::proof]
#[kani::unwind(10)]
fn p_hashmap() {
    let mut m = std::collections::HashMap::new();
    let v: u64 = kani::any();
    m.insert("a", v);
    assert_eq!(m.get("a"), Some(&v));
}

#[cfg(kani)]
#[kani::proof]
#[kani::unwind(20)]
fn p_split() {
    let s = "a bb c";
    let mut n = 0;
    for _t in s.split_ascii_whitespace() { n += 1; }
    assert_eq!(n, 3);
}

#[cfg(kani)]
#[kani::proof]
#[kani::unwind(20)]
fn p_fromstr() {
    use std::str::FromStr;
    assert_eq!(i64::from_str("-16"), Ok(-16));
}
#[cfg(kani)]
#[kani::proof]
#[kani::unwind(20)]
fn p_splitonce() {
    assert_eq!("$rax".split_once('$'), Some(("", "rax")));
}

#[cfg(kani)]
#[kani::proof]
fn q_pow2() { let x: u64 = kani::any(); if x.is_power_of_two() { assert!(x != 0); } }
#[cfg(kani)]
#[kani::proof]
#[kani::unwind(10)]
fn q_strip() { assert_eq!(".cfa:".strip_suffix(':'), Some(".cfa")); assert_eq!("$rax".strip_prefix('$'), Some("rax")); }
#[cfg(kani)]
#[kani::proof]
fn q_wdiv() { let x: u64 = kani::any(); let y: u64 = kani::any(); kani::assume(y != 0); let _ = x.wrapping_div(y); let _ = x.wrapping_rem(y); let _ = x.wrapping_mul(3); }
#[cfg(kani)]
#[kani::proof]
#[kani::unwind(10)]
fn q_string() { let s = String::from("abc"); assert_eq!(s.len(), 3); }

#[derive(Debug, Clone, PartialEq, Eq, Hash)]
enum CfiRegL<'a> { Cfa, Ra, Other(&'a str) }
#[cfg(kani)]
#[kani::proof]
#[kani::unwind(10)]
fn r_enumhash() {
    use std::hash::{Hash, Hasher};
    let mut h = std::collections::hash_map::DefaultHasher::new();
    CfiRegL::Other("rbp").hash(&mut h);
    CfiRegL::Cfa.hash(&mut h);
    let _ = h.finish();
}
#[cfg(kani)]
#[kani::proof]
#[kani::unwind(10)]
fn r_dynwalker() {
    let mut w = W { rsp: kani::any(), rbp: kani::any(), mem_addr: kani::any(), mem_val: kani::any(), mem_ok: kani::any(),
        cfa: None, ra: None, out_rbp: None, cleared_rbp: false };
    let d: &mut dyn FrameWalker = &mut w;
    let _ = d.get_callee_register("rsp");
}
#[cfg(kani)]
#[kani::proof]
#[kani::unwind(10)]
fn r_ptrsub() {
    let input = "ab cd";
    let base = input.as_ptr() as usize;
    let t = &input[3..];
    let off = t.as_ptr() as usize - base;
    assert_eq!(off, 3);
}
pub mod localwalker;
pub mod vecmap;
pub mod localwin;
#[cfg(kani)]
#[kani::proof]
#[kani::unwind(40)]
fn s_local_cfi() {
    let mut w = W { rsp: kani::any(), rbp: kani::any(), mem_addr: kani::any(), mem_val: kani::any(), mem_ok: kani::any(),
        cfa: None, ra: None, out_rbp: None, cleared_rbp: false };
    let init = CfiRules { address: 0, rules: String::from(".cfa: $rsp 16 + .ra: .cfa 8 - ^") };
    let r = localwalker::walk_with_stack_cfi(&init, &[], &mut w);
    let cfa = w.rsp.wrapping_add(16);
    if w.mem_ok && cfa.wrapping_sub(8) == w.mem_addr { assert!(r.is_some()); assert!(w.ra == Some(w.mem_val)); } else { assert!(r.is_none()); }
}
#[cfg(kani)]
#[kani::proof]
#[kani::unwind(10)]
fn t_trace() { tracing::trace!("hello {}", 3); }

pub fn fixed_random_state() -> std::hash::RandomState {
    // layout of RandomState is { k0: u64, k1: u64 }
    unsafe { std::mem::transmute::<[u64; 2], std::hash::RandomState>([0x0123456789abcdef, 0xfedcba9876543210]) }
}
#[cfg(kani)]
#[kani::proof]
#[kani::unwind(10)]
#[kani::stub(std::hash::RandomState::new, fixed_random_state)]
fn u_hashmap_stub() {
    let mut m = std::collections::HashMap::new();
    let v: u64 = kani::any();
    m.insert("a", v);
    m.insert("bc", 7);
    assert_eq!(m.get("a"), Some(&v));
    assert_eq!(m.get("bc"), Some(&7));
    assert_eq!(m.get("x"), None);
}
#[cfg(kani)]
#[kani::proof]
#[kani::unwind(40)]
#[kani::stub(std::hash::RandomState::new, fixed_random_state)]
fn u_cfi_stub() {
    let mut w = W { rsp: kani::any(), rbp: kani::any(), mem_addr: kani::any(), mem_val: kani::any(), mem_ok: kani::any(),
        cfa: None, ra: None, out_rbp: None, cleared_rbp: false };
    let init = CfiRules { address: 0, rules: String::from(".cfa: $rsp 16 + .ra: .cfa 8 - ^") };
    let r = walk_with_stack_cfi(&init, &[], &mut w);
    let cfa = w.rsp.wrapping_add(16);
    if w.mem_ok && cfa.wrapping_sub(8) == w.mem_addr { assert!(r.is_some()); assert!(w.ra == Some(w.mem_val)); assert!(w.cfa == Some(cfa)); } else { assert!(r.is_none()); }
}
#[cfg(kani)]
#[kani::proof]
#[kani::unwind(10)]
fn s2_local_cfi() {
    let mut w = W { rsp: kani::any(), rbp: kani::any(), mem_addr: kani::any(), mem_val: kani::any(), mem_ok: kani::any(),
        cfa: None, ra: None, out_rbp: None, cleared_rbp: false };
    let init = CfiRules { address: 0, rules: String::from(".cfa: $rsp 16 + .ra: .cfa 8 - ^") };
    let r = localwalker::walk_with_stack_cfi(&init, &[], &mut w);
    let cfa = w.rsp.wrapping_add(16);
    if w.mem_ok && cfa.wrapping_sub(8) == w.mem_addr { assert!(r.is_some()); assert!(w.ra == Some(w.mem_val)); } else { assert!(r.is_none()); }
}
#[cfg(kani)]
#[kani::proof]
#[kani::unwind(8)]
fn v_eval_static() {
    let mut w = W { rsp: kani::any(), rbp: kani::any(), mem_addr: kani::any(), mem_val: kani::any(), mem_ok: kani::any(),
        cfa: None, ra: None, out_rbp: None, cleared_rbp: false };
    let r = localwalker::eval_cfi_expr("$rsp 16 +", &mut w, None);
    assert!(r == Some(w.rsp.wrapping_add(16)));
}
pub fn stack_string(buf: &mut [u8]) -> std::mem::ManuallyDrop<String> {
    let s = unsafe { String::from_raw_parts(buf.as_mut_ptr(), buf.len(), buf.len()) };
    std::mem::ManuallyDrop::new(s)
}
#[cfg(kani)]
#[kani::proof]
#[kani::unwind(10)]
fn s3_local_cfi() {
    let mut w = W { rsp: kani::any(), rbp: kani::any(), mem_addr: kani::any(), mem_val: kani::any(), mem_ok: kani::any(),
        cfa: None, ra: None, out_rbp: None, cleared_rbp: false };
    let mut buf = *b".cfa: $rsp 16 + .ra: .cfa 8 - ^";
    let s = stack_string(&mut buf);
    let init = std::mem::ManuallyDrop::new(CfiRules { address: 0, rules: std::mem::ManuallyDrop::into_inner(s) });
    let r = localwalker::walk_with_stack_cfi(&init, &[], &mut w);
    let cfa = w.rsp.wrapping_add(16);
    if w.mem_ok && cfa.wrapping_sub(8) == w.mem_addr { assert!(r.is_some()); assert!(w.ra == Some(w.mem_val)); } else { assert!(r.is_none()); }
}

// ---- symbolic slot programs for eval_cfi_expr ----
const SLOT: usize = 5;
const TOKS: [&[u8; SLOT]; 12] = [b"+    ", b"-    ", b"*    ", b"/    ", b"%    ", b"@    ", b"^    ", b".cfa ", b"$rsp ", b"rbp  ", b"-8   ", b"16   "];
fn ref_eval(toks: &[u8], w: &W, cfa: Option<u64>) -> Option<u64> {
    let mut st = [0u64; 4]; let mut n = 0usize;
    for &t in toks {
        match t {
            0..=5 => {
                if n < 2 { return None; }
                let r = st[n-1]; let l = st[n-2]; n -= 2;
                let v = match t {
                    0 => l.wrapping_add(r), 1 => l.wrapping_sub(r), 2 => l.wrapping_mul(r),
                    3 => { if r == 0 { return None; } l / r }
                    4 => { if r == 0 { return None; } l % r }
                    _ => { if r == 0 || (r & (r - 1)) != 0 { return None; } l & !(r - 1) }
                };
                st[n] = v; n += 1;
            }
            6 => { if n < 1 { return None; } let p = st[n-1]; if w.mem_ok && p == w.mem_addr { st[n-1] = w.mem_val; } else { return None; } }
            7 => { st[n] = cfa?; n += 1; }
            8 => { st[n] = w.rsp; n += 1; }
            9 => { st[n] = w.rbp; n += 1; }
            10 => { st[n] = (-8i64) as u64; n += 1; }
            _ => { st[n] = 16; n += 1; }
        }
    }
    if n == 1 { Some(st[0]) } else { None }
}
#[cfg(kani)]
#[kani::proof]
#[kani::unwind(7)]
fn v_eval_sym3() {
    const N: usize = 3;
    let mut w = W { rsp: kani::any(), rbp: kani::any(), mem_addr: kani::any(), mem_val: kani::any(), mem_ok: kani::any(),
        cfa: None, ra: None, out_rbp: None, cleared_rbp: false };
    let cfa: Option<u64> = kani::any();
    let mut toks = [0u8; N];
    let mut buf = [b' '; N * SLOT];
    for i in 0..N {
        let t: u8 = kani::any(); kani::assume((t as usize) < TOKS.len());
        toks[i] = t;
        let src = TOKS[t as usize];
        for j in 0..SLOT { buf[i * SLOT + j] = src[j]; }
    }
    let s = unsafe { std::str::from_utf8_unchecked(&buf) };
    let got = localwalker::eval_cfi_expr(s, &mut w, cfa);
    let exp = ref_eval(&toks, &w, cfa);
    assert!(got == exp);
}
#[cfg(kani)]
#[kani::proof]
#[kani::unwind(7)]
fn v_eval_sym2() {
    const N: usize = 2;
    let mut w = W { rsp: kani::any(), rbp: kani::any(), mem_addr: kani::any(), mem_val: kani::any(), mem_ok: kani::any(),
        cfa: None, ra: None, out_rbp: None, cleared_rbp: false };
    let cfa: Option<u64> = kani::any();
    let mut toks = [0u8; N];
    let mut buf = [b' '; N * SLOT];
    for i in 0..N {
        let t: u8 = kani::any(); kani::assume((t as usize) < TOKS.len());
        toks[i] = t;
        let src = TOKS[t as usize];
        for j in 0..SLOT { buf[i * SLOT + j] = src[j]; }
    }
    let s = unsafe { std::str::from_utf8_unchecked(&buf) };
    let got = localwalker::eval_cfi_expr(s, &mut w, cfa);
    let exp = ref_eval(&toks, &w, cfa);
    assert!(got == exp);
}

// ---- C08: into_rangemap_safe ----
use minidump_common::traits::IntoRangeMapSafe;
use range_map::Range;
#[derive(Clone, Copy, Debug, PartialEq, Eq)]
pub struct Ent { base: u64, size: u64, tag: u8 }
impl Ent {
    fn range(&self) -> Option<Range<u64>> {
        if self.size == 0 { return None; }
        Some(Range::new(self.base, self.base.checked_add(self.size)? - 1))
    }
}
#[cfg(kani)]
#[kani::proof]
#[kani::unwind(5)]
fn w_rangemap3() {
    const N: usize = 3;
    let mut v: Vec<(Option<Range<u64>>, Ent)> = Vec::with_capacity(N);
    let mut ents = [Ent { base: 0, size: 0, tag: 0 }; N];
    for i in 0..N {
        let e = Ent { base: kani::any(), size: kani::any(), tag: kani::any() };
        ents[i] = e;
        v.push((e.range(), e));
    }
    let map = v.into_rangemap_safe();
    let addr: u64 = kani::any();
    // soundness
    if let Some(e) = map.get(addr) {
        let r = e.range();
        assert!(r.is_some());
        let r = r.unwrap();
        assert!(r.start <= addr && addr <= r.end);
    }
    // completeness for isolated entries
    let k: usize = kani::any(); kani::assume(k < N);
    if let Some(rk) = ents[k].range() {
        let mut isolated = true;
        for j in 0..N { if j != k { if let Some(rj) = ents[j].range() { if rj.start <= rk.end && rk.start <= rj.end { isolated = false; } } } }
        if isolated && rk.start <= addr && addr <= rk.end {
            assert!(map.get(addr) == Some(&ents[k]));
        }
    }
}
#[cfg(kani)]
#[kani::proof]
#[kani::unwind(5)]
fn m1_sort_arr() { let mut a: [u64; 3] = kani::any(); a.sort(); assert!(a[0] <= a[1] && a[1] <= a[2]); }
#[cfg(kani)]
#[kani::proof]
#[kani::unwind(5)]
fn m2_sort_vec() { let a: [u64; 3] = kani::any(); let mut v = a.to_vec(); v.sort(); assert!(v[0] <= v[1] && v[1] <= v[2]); }
#[cfg(kani)]
#[kani::proof]
#[kani::unwind(5)]
fn m3_sortkey_vec() { let a: [(u64,u8); 3] = kani::any(); let mut v = a.to_vec(); v.sort_by_key(|x| x.0); assert!(v[0].0 <= v[1].0 && v[1].0 <= v[2].0); }
#[cfg(kani)]
#[kani::proof]
#[kani::unwind(5)]
fn m4_collect_sort() {
    let a: [(u64,u8); 3] = kani::any();
    let mut v = Vec::with_capacity(3);
    for x in a { if x.1 != 0 { v.push(x); } }
    let mut w: Vec<(u64,u8)> = v.into_iter().collect();
    w.sort_by(|x, y| x.0.cmp(&y.0));
    if w.len() == 3 { assert!(w[0].0 <= w[1].0 && w[1].0 <= w[2].0); }
}
#[cfg(kani)]
#[kani::proof]
#[kani::unwind(5)]
fn m5_rangemap_direct() {
    let a: [(u64,u64,u8); 3] = kani::any();
    let mut v = Vec::with_capacity(3);
    for x in a { if x.0 <= x.1 { v.push((Range::new(x.0, x.1), x.2)); } }
    let r = range_map::RangeMap::try_from_iter(v);
    let addr: u64 = kani::any();
    if let Ok(m) = r { if let Some(t) = m.get(addr) { let _ = *t; } }
}
#[cfg(kani)]
#[kani::proof]
#[kani::unwind(4)]
fn w_rangemap2() {
    const N: usize = 2;
    let mut ents = [Ent { base: 0, size: 0, tag: 0 }; N];
    for i in 0..N { ents[i] = Ent { base: kani::any(), size: kani::any(), tag: kani::any() }; }
    let arr = [(ents[0].range(), ents[0]), (ents[1].range(), ents[1])];
    let map = arr.into_rangemap_safe();
    let addr: u64 = kani::any();
    if let Some(e) = map.get(addr) {
        let r = e.range().unwrap();
        assert!(r.start <= addr && addr <= r.end);
    }
}
#[cfg(kani)]
#[kani::proof]
#[kani::unwind(5)]
fn m6_fixed_collect_sort() {
    let a: [(u64,u8); 3] = kani::any();
    let v = a.to_vec();
    let mut w: Vec<(u64,u8)> = v.into_iter().collect();
    w.sort_by(|x, y| x.0.cmp(&y.0));
    assert!(w[0].0 <= w[1].0 && w[1].0 <= w[2].0);
}

// ---- C01 / C14 / C18 probes ----
use minidump::{Endian, MinidumpStream};
pub struct NullSink;
impl std::io::Write for NullSink {
    fn write(&mut self, b: &[u8]) -> std::io::Result<usize> { Ok(b.len()) }
    fn flush(&mut self) -> std::io::Result<()> { Ok(()) }
    fn write_fmt(&mut self, _a: std::fmt::Arguments<'_>) -> std::io::Result<()> { Ok(()) }
}
fn any_endian() -> Endian { if kani::any() { Endian::Little } else { Endian::Big } }

#[cfg(kani)]
#[kani::proof]
#[kani::unwind(4)]
fn x_meminfo_read() {
    let bytes: [u8; 64] = kani::any();
    let len: usize = kani::any(); kani::assume(len <= 64);
    let r = minidump::MinidumpMemoryInfoList::read(&bytes[..len], &bytes[..len], any_endian(), None);
    if let Ok(l) = r { let a: u64 = kani::any(); let _ = l.memory_info_at_address(a); std::mem::forget(l); }
}
#[cfg(kani)]
#[kani::proof]
#[kani::unwind(17)]
fn x_exception_print() {
    let bytes: [u8; 168] = kani::any();
    let r = minidump::MinidumpException::read(&bytes, &bytes, any_endian(), None);
    if let Ok(e) = r {
        let _ = e.print(&mut NullSink, None, None);
    }
}
#[cfg(kani)]
#[kani::proof]
#[kani::unwind(4)]
fn x_crash_address() {
    let bytes: [u8; 168] = kani::any();
    let r = minidump::MinidumpException::read(&bytes, &bytes, Endian::Little, None);
    if let Ok(e) = r {
        let a = e.get_crash_address(minidump::system_info::Os::Windows, minidump::system_info::Cpu::X86);
        assert!(a <= u32::MAX as u64);
    }
}
#[cfg(kani)]
#[kani::proof]
#[kani::unwind(4)]
fn x_minidump_read() {
    let bytes: [u8; 44] = kani::any();
    let len: usize = kani::any(); kani::assume(len <= 44);
    let r = minidump::Minidump::read(&bytes[..len]);
    if let Ok(d) = r { let _ = d.get_raw_stream(kani::any()); std::mem::forget(d); }
}
#[cfg(kani)]
#[kani::proof]
#[kani::unwind(6)]
fn x_regs_arm64() {
    use minidump::CpuContext;
    let mut c = minidump::format::CONTEXT_ARM64::default();
    c.iregs = kani::any(); c.sp = kani::any(); c.pc = kani::any();
    let v: u64 = kani::any();
    let before = c.clone();
    assert!(c.set_register("x29", v).is_some());
    assert!(c.get_register_always("fp") == v);
    assert!(c.get_register_always("x29") == v);
    assert!(c.get_register_always("x28") == before.get_register_always("x28"));
    assert!(c.memoize_register("x30") == Some("lr"));
}

#[cfg(kani)]
#[kani::proof]
#[kani::unwind(17)]
fn y_crash_address() {
    let bytes: [u8; 168] = kani::any();
    let r = minidump::MinidumpException::read(&bytes, &bytes, Endian::Little, None);
    if let Ok(e) = r {
        let a = e.get_crash_address(minidump::system_info::Os::Windows, minidump::system_info::Cpu::X86);
        assert!(a <= u32::MAX as u64);
    }
}
// local copy of read_stream_list for MINIDUMP_MEMORY_DESCRIPTOR
fn ensure_count_in_bound(buf: &[u8], n: usize, sz: usize, off: usize) -> Result<(usize, usize), ()> {
    let expected = n.checked_mul(sz).and_then(|v| v.checked_add(off)).ok_or(())?;
    if buf.len() < expected { return Err(()); }
    Ok((n, expected))
}
fn read_stream_list_local(offset: &mut usize, bytes: &[u8], endian: Endian) -> Result<Vec<minidump::format::MINIDUMP_MEMORY_DESCRIPTOR>, ()> {
    use scroll::Pread; use scroll::ctx::SizeWith;
    let u: u32 = bytes.gread_with(offset, endian).or(Err(()))?;
    let (count, counted) = ensure_count_in_bound(bytes, u as usize, minidump::format::MINIDUMP_MEMORY_DESCRIPTOR::size_with(&endian), 4)?;
    match bytes.len() - counted { 0 => {} 4 => { *offset += 4; } _ => return Err(()) };
    let mut raw = Vec::with_capacity(count);
    for _ in 0..count { let r: minidump::format::MINIDUMP_MEMORY_DESCRIPTOR = bytes.gread_with(offset, endian).or(Err(()))?; raw.push(r); }
    Ok(raw)
}
#[cfg(kani)]
#[kani::proof]
#[kani::unwind(4)]
fn y_stream_list() {
    let bytes: [u8; 40] = kani::any();
    let len: usize = kani::any(); kani::assume(len <= 40);
    let mut off = 0;
    let r = read_stream_list_local(&mut off, &bytes[..len], any_endian());
    if let Ok(v) = r { assert!(v.len() * 16 + 4 <= len); assert!(v.capacity() * 16 <= len); std::mem::forget(v); }
}
// FPO walker on the real code
pub struct W86 { esp: u64, ebp: u64, ebx: Option<u64>, eip: u64, gc: bool, gcps: u32, mem_lo: u64, mem: [u32; 4],
  o_eip: Option<u64>, o_esp: Option<u64>, o_ebp: Option<u64>, o_ebx: Option<u64> }
impl FrameWalker for W86 {
    fn get_instruction(&self) -> u64 { 0 }
    fn has_grand_callee(&self) -> bool { self.gc }
    fn get_grand_callee_parameter_size(&self) -> u32 { self.gcps }
    fn get_register_at_address(&self, a: u64) -> Option<u64> {
        let off = a.checked_sub(self.mem_lo)?; if off % 4 != 0 || off / 4 >= 4 { return None; } Some(self.mem[(off / 4) as usize] as u64) }
    fn get_callee_register(&self, name: &str) -> Option<u64> { match name { "esp" => Some(self.esp), "ebp" => Some(self.ebp), "ebx" => self.ebx, "eip" => Some(self.eip), _ => None } }
    fn set_caller_register(&mut self, name: &str, val: u64) -> Option<()> { match name { "eip" => self.o_eip = Some(val), "esp" => self.o_esp = Some(val), "ebp" => self.o_ebp = Some(val), "ebx" => self.o_ebx = Some(val), _ => return None } Some(()) }
    fn clear_caller_register(&mut self, _name: &str) {}
    fn set_cfa(&mut self, _v: u64) -> Option<()> { None }
    fn set_ra(&mut self, _v: u64) -> Option<()> { None }
}
#[cfg(kani)]
#[kani::proof]
#[kani::unwind(8)]
fn y_fpo() {
    use breakpad_symbols::fuzzing_private_exports::{StackInfoWin, WinStackThing};
    let esp: u32 = kani::any(); let ebp: u32 = kani::any(); let eip: u32 = kani::any();
    let mut w = W86 { esp: esp as u64, ebp: ebp as u64, ebx: kani::any(), eip: eip as u64, gc: kani::any(), gcps: kani::any(),
        mem_lo: kani::any(), mem: kani::any(), o_eip: None, o_esp: None, o_ebp: None, o_ebx: None };
    let info = StackInfoWin { address: 0, size: 16, prologue_size: 0, epilogue_size: 0, parameter_size: kani::any(),
        saved_register_size: kani::any(), local_size: kani::any(), max_stack_size: 0,
        program_string_or_base_pointer: WinStackThing::AllocatesBasePointer(kani::any()) };
    let _ = breakpad_symbols::walker::walk_with_stack_win_fpo(&info, &mut w);
}
#[cfg(kani)]
#[kani::proof]
#[kani::unwind(10)]
fn y_winexpr_concrete() {
    let esp: u32 = kani::any(); let ebp: u32 = kani::any();
    let mut w = W86 { esp: esp as u64, ebp: ebp as u64, ebx: None, eip: 0, gc: false, gcps: 0,
        mem_lo: kani::any(), mem: kani::any(), o_eip: None, o_esp: None, o_ebp: None, o_ebx: None };
    let info = localwin::StackInfoWin { parameter_size: kani::any(), saved_register_size: 0, local_size: 0 };
    let r = localwin::eval_win_expr("$T0 .raSearch = $eip $T0 ^ = $esp $T0 4 + =", &info, &mut w);
    if r.is_some() { assert!(w.o_esp == Some((esp.wrapping_add(4)) as u64)); }
}

// ===== round 2 probes =====
#[cfg(kani)]
#[kani::proof]
#[kani::unwind(9)]
fn a2_eval_6tok() {
    let mut w = W { rsp: kani::any(), rbp: kani::any(), mem_addr: kani::any(), mem_val: kani::any(), mem_ok: kani::any(),
        cfa: None, ra: None, out_rbp: None, cleared_rbp: false };
    let cfa: Option<u64> = kani::any();
    let r = breakpad_symbols::walker::verif_eval_cfi_expr(".cfa -8 + ^ $rsp @", &mut w, cfa);
    let exp = (|| { let c = cfa?; let p = c.wrapping_add((-8i64) as u64); if !(w.mem_ok && p == w.mem_addr) { return None; }
        let l = w.mem_val; let r = w.rsp; if r == 0 || r & (r - 1) != 0 { return None; } Some(l & !(r - 1)) })();
    assert!(r == exp);
}
const PROGS: [&str; 16] = ["$rsp 8 +", "$rsp 8 -", "$rsp $rbp *", "$rsp $rbp /", "$rsp $rbp %", "$rsp $rbp @", "$rsp ^", ".cfa 8 -",
  "8 $rsp", "+", "$rsp +", ".undef", "rbp", "junk", "-8", "$rsp 8 + ^"];
#[cfg(kani)]
#[kani::proof]
#[kani::unwind(9)]
fn a2_eval_batch16() {
    let mut w = W { rsp: kani::any(), rbp: kani::any(), mem_addr: kani::any(), mem_val: kani::any(), mem_ok: kani::any(),
        cfa: None, ra: None, out_rbp: None, cleared_rbp: false };
    let cfa: Option<u64> = kani::any();
    let mut some = 0u32;
    for p in PROGS { if breakpad_symbols::walker::verif_eval_cfi_expr(p, &mut w, cfa).is_some() { some += 1; } }
    assert!(some <= 16);
}
// C11
#[cfg(kani)]
#[kani::proof]
#[kani::unwind(6)]
fn b2_inlinee() {
    use breakpad_symbols::SymbolFile;
    let mut v = Vec::with_capacity(3);
    let mut keys = [(0u32, 0u64, 0u32); 3];
    for i in 0..3 {
        let d: u32 = kani::any(); kani::assume(d <= 2);
        let a: u64 = kani::any(); let s: u32 = kani::any();
        keys[i] = (d, a, s);
        v.push(breakpad_symbols::verif::Inlinee { depth: d, address: a, size: s, call_file: i as u32, call_line: kani::any(), origin_id: i as u32 });
    }
    kani::assume((keys[0].0, keys[0].1) <= (keys[1].0, keys[1].1) && (keys[1].0, keys[1].1) <= (keys[2].0, keys[2].1));
    let f = breakpad_symbols::verif::Function { address: 0, size: 1, parameter_size: 0, name: String::new(), lines: range_map::RangeMap::new(), inlinees: v };
    let depth: u32 = kani::any(); let addr: u64 = kani::any();
    let got = f.get_inlinee_at_depth(depth, addr);
    // reference: last record with key <= (depth, addr)
    let mut cand: Option<usize> = None;
    for i in 0..3 { if (keys[i].0, keys[i].1) <= (depth, addr) { cand = Some(i); } }
    let exp = match cand { Some(i) if keys[i].0 == depth => { match keys[i].1.checked_add(keys[i].2 as u64) { Some(e) if addr < e => Some(i as u32), _ => None } } _ => None };
    assert!(got.map(|g| g.0) == exp || (got.is_some() && exp.is_some()));
    std::mem::forget(f);
}
// RangeMap fixed 2
#[cfg(kani)]
#[kani::proof]
#[kani::unwind(5)]
fn b2_rangemap_fixed2() {
    let a: [(u64,u64,u8); 2] = kani::any();
    kani::assume(a[0].0 <= a[0].1 && a[0].1 < a[1].0 && a[1].0 <= a[1].1);
    let v = vec![(Range::new(a[0].0, a[0].1), a[0].2), (Range::new(a[1].0, a[1].1), a[1].2)];
    let m = range_map::RangeMap::try_from_iter(v).unwrap();
    let addr: u64 = kani::any();
    let g = m.get(addr).copied();
    let e = if a[0].0 <= addr && addr <= a[0].1 { Some(a[0].2) } else if a[1].0 <= addr && addr <= a[1].1 { Some(a[1].2) } else { None };
    assert!(g == e || a[0].2 == a[1].2);
    std::mem::forget(m);
}
// C17
fn leafname_l(path: &str) -> &str { breakpad_symbols::verif::leafname(path) }
#[cfg(kani)]
#[kani::proof]
#[kani::unwind(8)]
fn c2_leafname() {
    let b: [u8; 5] = kani::any();
    let len: usize = kani::any(); kani::assume(len <= 5);
    for i in 0..5 { kani::assume(b[i] < 128); }
    let s = unsafe { std::str::from_utf8_unchecked(&b[..len]) };
    let l = leafname_l(s);
    assert!(l.len() <= len);
    let lb = l.as_bytes();
    for i in 0..5 { if i < lb.len() { assert!(lb[i] != b'/' && lb[i] != b'\\'); } }
    assert!(l != "..");
}
// C09
fn hex_u64_l(input: &[u8]) -> Option<(usize, u64)> {
    let max_len = 16; let mut res: u64 = 0; let mut k = 0;
    for v in input.iter().take(max_len) { let d = match (*v as char).to_digit(16) { Some(v) => v, None => break }; res = res << 4u64; res = res | (d as u8) as u64; k += 1; }
    if k == 0 { return None; } Some((k, res))
}
#[cfg(kani)]
#[kani::proof]
#[kani::unwind(19)]
fn d2_hex() {
    let b: [u8; 18] = kani::any(); let len: usize = kani::any(); kani::assume(len <= 18);
    if let Some((k, _v)) = hex_u64_l(&b[..len]) { assert!(k <= 16 && k <= len); }
}
// C18 unknown names
#[cfg(kani)]
#[kani::proof]
#[kani::unwind(11)]
fn e2_unknown_reg() {
    use minidump::CpuContext;
    let c = minidump::format::CONTEXT_X86::default();
    let b: [u8; 3] = kani::any(); let len: usize = kani::any(); kani::assume(len >= 1 && len <= 3);
    for i in 0..3 { kani::assume(b[i].is_ascii_lowercase() || b[i].is_ascii_digit()); }
    let s = unsafe { std::str::from_utf8_unchecked(&b[..len]) };
    let known = ["eip", "esp", "ebp", "ebx", "esi", "edi", "eax", "ecx", "edx"];
    let mut k = false; for n in known { if s == n { k = true; } }
    let g = c.get_register(s, &minidump::MinidumpContextValidity::All);
    assert!(g.is_some() == k);
}
// C01 handle stream
#[cfg(kani)]
#[kani::proof]
#[kani::unwind(6)]
fn f2_handles() {
    let bytes: [u8; 72] = kani::any();
    let r = minidump::MinidumpHandleDataStream::read(&bytes[..52], &bytes, any_endian(), None);
    if let Ok(h) = r { std::mem::forget(h); }
}
// C01 amd64 context read + print
#[cfg(kani)]
#[kani::proof]
#[kani::unwind(520)]
fn g2_ctx_amd64() {
    let bytes: [u8; 1232] = kani::any();
    let mut sb = [0u8; 56]; sb[0] = 9; // PROCESSOR_ARCHITECTURE_AMD64, little endian
    let si = minidump::MinidumpSystemInfo::read(&sb, &sb, Endian::Little, None).unwrap();
    let r = minidump::MinidumpContext::read(&bytes, any_endian(), &si, None);
    if let Ok(c) = r { let _ = c.print(&mut NullSink); assert!(c.get_instruction_pointer() == c.get_register_always("rip")); }
}

// ===== round 3: C08 with RangeMap::try_from_iter stubbed by a contract-checking recorder =====
pub static mut REC: [(u64, u64, Ent); 4] = [(0, 0, Ent { base: 0, size: 0, tag: 0 }); 4];
pub static mut REC_LEN: usize = 0;
pub static mut REC_OK: bool = false;
pub struct StubHolder<T, V>(std::marker::PhantomData<(T, V)>);
impl<T: std::fmt::Debug + num_traits::PrimInt, V: Clone + std::fmt::Debug + Eq> StubHolder<T, V> {
    pub fn try_from_iter<I: IntoIterator<Item = (Range<T>, V)>>(
        iter: I,
    ) -> Result<range_map::RangeMap<T, V>, range_map::OverlapError<T, V>> {
        let mut n = 0usize; let mut ok = true; let mut last_end: u64 = 0;
        for (r, v) in iter {
            let s: u64 = r.start.to_u64().unwrap(); let e: u64 = r.end.to_u64().unwrap();
            let ent: Ent = unsafe { std::mem::transmute_copy(&v) };
            if s > e { ok = false; }
            if n > 0 && s <= last_end { ok = false; }
            last_end = e;
            if n < 4 { unsafe { REC[n] = (s, e, ent); } }
            n += 1;
            std::mem::forget(v);
        }
        unsafe { REC_LEN = n; REC_OK = ok; }
        Ok(range_map::RangeMap::new())
    }
}
#[cfg(kani)]
#[kani::proof]
#[kani::unwind(5)]
#[kani::stub(range_map::RangeMap::try_from_iter, StubHolder::try_from_iter)]
fn h3_rangemap_stub3() {
    const N: usize = 3;
    let mut ents = [Ent { base: 0, size: 0, tag: 0 }; N];
    for i in 0..N { ents[i] = Ent { base: kani::any(), size: kani::any(), tag: kani::any() }; }
    let arr = [(ents[0].range(), ents[0]), (ents[1].range(), ents[1]), (ents[2].range(), ents[2])];
    let _m = arr.into_rangemap_safe();
    let (len, ok) = unsafe { (REC_LEN, REC_OK) };
    assert!(ok);               // sorted + pairwise disjoint => try_from_iter cannot fail
    assert!(len <= N);
    // soundness: every stored entry's range is its own value's range
    let k: usize = kani::any(); kani::assume(k < len);
    let (s, e, v) = unsafe { REC[k] };
    let r = v.range(); assert!(r.is_some()); let r = r.unwrap();
    assert!(r.start == s && r.end == e);
    // completeness: an isolated input entry is stored
    let j: usize = kani::any(); kani::assume(j < N);
    if let Some(rj) = ents[j].range() {
        let mut isolated = true;
        for i in 0..N { if i != j { if let Some(ri) = ents[i].range() { if ri.start <= rj.end && rj.start <= ri.end { isolated = false; } } } }
        if isolated { let mut found = false; for i in 0..N { if i < len { let (s2, e2, v2) = unsafe { REC[i] }; if s2 == rj.start && e2 == rj.end && v2 == ents[j] { found = true; } } } assert!(found); }
    }
}

#[cfg(kani)]
#[kani::proof]
#[kani::unwind(4)]
#[kani::stub(range_map::RangeMap::try_from_iter, StubHolder::try_from_iter)]
fn h3_rangemap_stub2() {
    const N: usize = 2;
    let mut ents = [Ent { base: 0, size: 0, tag: 0 }; N];
    for i in 0..N { ents[i] = Ent { base: kani::any(), size: kani::any(), tag: kani::any() }; }
    let arr = [(ents[0].range(), ents[0]), (ents[1].range(), ents[1])];
    let _m = arr.into_rangemap_safe();
    let (len, ok) = unsafe { (REC_LEN, REC_OK) };
    assert!(ok);               // sorted + pairwise disjoint => try_from_iter cannot fail
    assert!(len <= N);
    // soundness: every stored entry's range is its own value's range
    let k: usize = kani::any(); kani::assume(k < len);
    let (s, e, v) = unsafe { REC[k] };
    let r = v.range(); assert!(r.is_some()); let r = r.unwrap();
    assert!(r.start == s && r.end == e);
    // completeness: an isolated input entry is stored
    let j: usize = kani::any(); kani::assume(j < N);
    if let Some(rj) = ents[j].range() {
        let mut isolated = true;
        for i in 0..N { if i != j { if let Some(ri) = ents[i].range() { if ri.start <= rj.end && rj.start <= ri.end { isolated = false; } } } }
        if isolated { let mut found = false; for i in 0..N { if i < len { let (s2, e2, v2) = unsafe { REC[i] }; if s2 == rj.start && e2 == rj.end && v2 == ents[j] { found = true; } } } assert!(found); }
    }
}

#[cfg(kani)]
#[kani::proof]
#[kani::unwind(9)]
fn a3_eval_straight16() {
    let mut w = W { rsp: kani::any(), rbp: kani::any(), mem_addr: kani::any(), mem_val: kani::any(), mem_ok: kani::any(),
        cfa: None, ra: None, out_rbp: None, cleared_rbp: false };
    let cfa: Option<u64> = kani::any();
    let mut some = 0u32;
    if breakpad_symbols::walker::verif_eval_cfi_expr("$rsp 8 +", &mut w, cfa).is_some() { some += 1; }
    if breakpad_symbols::walker::verif_eval_cfi_expr("$rsp 8 -", &mut w, cfa).is_some() { some += 1; }
    if breakpad_symbols::walker::verif_eval_cfi_expr("$rsp $rbp *", &mut w, cfa).is_some() { some += 1; }
    if breakpad_symbols::walker::verif_eval_cfi_expr("$rsp $rbp /", &mut w, cfa).is_some() { some += 1; }
    if breakpad_symbols::walker::verif_eval_cfi_expr("$rsp $rbp %", &mut w, cfa).is_some() { some += 1; }
    if breakpad_symbols::walker::verif_eval_cfi_expr("$rsp $rbp @", &mut w, cfa).is_some() { some += 1; }
    if breakpad_symbols::walker::verif_eval_cfi_expr("$rsp ^", &mut w, cfa).is_some() { some += 1; }
    if breakpad_symbols::walker::verif_eval_cfi_expr(".cfa 8 -", &mut w, cfa).is_some() { some += 1; }
    if breakpad_symbols::walker::verif_eval_cfi_expr("8 $rsp", &mut w, cfa).is_some() { some += 1; }
    if breakpad_symbols::walker::verif_eval_cfi_expr("+", &mut w, cfa).is_some() { some += 1; }
    if breakpad_symbols::walker::verif_eval_cfi_expr("$rsp +", &mut w, cfa).is_some() { some += 1; }
    if breakpad_symbols::walker::verif_eval_cfi_expr(".undef", &mut w, cfa).is_some() { some += 1; }
    if breakpad_symbols::walker::verif_eval_cfi_expr("rbp", &mut w, cfa).is_some() { some += 1; }
    if breakpad_symbols::walker::verif_eval_cfi_expr("junk", &mut w, cfa).is_some() { some += 1; }
    if breakpad_symbols::walker::verif_eval_cfi_expr("-8", &mut w, cfa).is_some() { some += 1; }
    if breakpad_symbols::walker::verif_eval_cfi_expr("$rsp 8 + ^", &mut w, cfa).is_some() { some += 1; }
    assert!(some <= 16);
}
#[cfg(kani)]
#[kani::proof]
#[kani::unwind(100)]
fn g3_ctx_amd64_read() {
    let bytes: [u8; 1232] = kani::any();
    let mut sb = [0u8; 56]; sb[0] = 9;
    let si = minidump::MinidumpSystemInfo::read(&sb, &sb, Endian::Little, None).unwrap();
    let r = minidump::MinidumpContext::read(&bytes, any_endian(), &si, None);
    if let Ok(c) = r { assert!(c.get_instruction_pointer() == c.get_register_always("rip")); }
}
#[cfg(kani)]
#[kani::proof]
fn k_cfg_in_deps() { assert!(minidump_common::verif_probe_kani_cfg() == 7); }
#[cfg(kani)]
#[kani::proof]
#[kani::unwind(17)]
fn n_crash_reason_windows() {
    let bytes: [u8; 168] = kani::any();
    let r = minidump::MinidumpException::read(&bytes, &bytes, Endian::Little, None);
    if let Ok(e) = r {
        let reason = e.get_crash_reason(minidump::system_info::Os::Windows, minidump::system_info::Cpu::X86_64);
        let code = e.raw.exception_record.exception_code;
        if code == 0xC0000005 && e.raw.exception_record.number_parameters >= 1 && e.raw.exception_record.exception_information[0] == 1 {
            assert!(matches!(reason, minidump::CrashReason::WindowsAccessViolation(_)));
        }
        std::mem::forget(reason);
    }
}
#[cfg(kani)]
#[kani::proof]
#[kani::unwind(17)]
fn n_crash_reason_linux() {
    let bytes: [u8; 168] = kani::any();
    let r = minidump::MinidumpException::read(&bytes, &bytes, any_endian(), None);
    if let Ok(e) = r {
        let reason = e.get_crash_reason(minidump::system_info::Os::Linux, minidump::system_info::Cpu::X86_64);
        std::mem::forget(reason);
    }
}
