//! Insertion-ordered set used instead of std HashSet in verification builds.
#[derive(Debug, Clone, Default)]
pub struct VecSet<T> { items: Vec<T> }
impl<T: PartialEq> VecSet<T> {
    pub fn new() -> Self { VecSet { items: Vec::new() } }
    pub fn insert(&mut self, v: T) -> bool { if self.items.iter().any(|x| *x == v) { false } else { self.items.push(v); true } }
    pub fn contains<Q: ?Sized + PartialEq>(&self, q: &Q) -> bool where T: std::borrow::Borrow<Q> { self.items.iter().any(|x| x.borrow() == q) }
    pub fn remove<Q: ?Sized + PartialEq>(&mut self, q: &Q) -> bool where T: std::borrow::Borrow<Q> {
        match self.items.iter().position(|x| x.borrow() == q) { Some(i) => { self.items.remove(i); true } None => false } }
    pub fn iter(&self) -> std::slice::Iter<'_, T> { self.items.iter() }
    pub fn len(&self) -> usize { self.items.len() }
    pub fn is_empty(&self) -> bool { self.items.is_empty() }
}
impl<T: PartialEq> PartialEq for VecSet<T> { fn eq(&self, o: &Self) -> bool { self.len() == o.len() && self.items.iter().all(|x| o.items.iter().any(|y| x == y)) } }
impl<T: Eq> Eq for VecSet<T> {}
impl<T: PartialEq> std::iter::FromIterator<T> for VecSet<T> { fn from_iter<I: IntoIterator<Item = T>>(it: I) -> Self { let mut s = VecSet::new(); for x in it { s.insert(x); } s } }
