//! Association-list stand-in for std HashMap (verification builds only).
#[derive(Debug, Clone, Default)]
pub struct VecMap<K, V> { items: Vec<(K, V)> }
impl<K: PartialEq, V> VecMap<K, V> {
    pub fn new() -> Self { VecMap { items: Vec::new() } }
    pub fn insert(&mut self, k: K, v: V) -> Option<V> {
        for it in self.items.iter_mut() {
            if it.0 == k { return Some(std::mem::replace(&mut it.1, v)); }
        }
        self.items.push((k, v));
        None
    }
    pub fn get<Q: ?Sized>(&self, k: &Q) -> Option<&V> where K: std::borrow::Borrow<Q>, Q: PartialEq {
        for it in self.items.iter() { if it.0.borrow() == k { return Some(&it.1); } }
        None
    }
    pub fn remove<Q: ?Sized>(&mut self, k: &Q) -> Option<V> where K: std::borrow::Borrow<Q>, Q: PartialEq {
        let mut idx = None;
        for (i, it) in self.items.iter().enumerate() { if it.0.borrow() == k { idx = Some(i); break; } }
        idx.map(|i| self.items.remove(i).1)
    }
    pub fn len(&self) -> usize { self.items.len() }
}
impl<K, V> IntoIterator for VecMap<K, V> {
    type Item = (K, V);
    type IntoIter = std::vec::IntoIter<(K, V)>;
    fn into_iter(self) -> Self::IntoIter { self.items.into_iter() }
}
