#![allow(dead_code, unused_imports)]
use async_trait::async_trait;
use minidump::format::CONTEXT_AMD64;
use minidump::*;
use minidump_unwind::*;
use std::future::Future;
use std::pin::Pin;
use std::task::{Context, Poll, RawWaker, RawWakerVTable, Waker};

fn noop_raw() -> RawWaker {
    fn clone(_: *const ()) -> RawWaker { noop_raw() }
    fn noop(_: *const ()) {}
    static VT: RawWakerVTable = RawWakerVTable::new(clone, noop, noop, noop);
    RawWaker::new(std::ptr::null(), &VT)
}
pub fn block_on<F: Future>(mut f: F) -> F::Output {
    let waker = unsafe { Waker::from_raw(noop_raw()) };
    let mut cx = Context::from_waker(&waker);
    let mut f = unsafe { Pin::new_unchecked(&mut f) };
    loop { if let Poll::Ready(v) = f.as_mut().poll(&mut cx) { return v; } }
}

struct NoSyms { valid: bool }
#[async_trait]
impl SymbolProvider for NoSyms {
    async fn fill_symbol(&self, _m: &(dyn Module + Sync), _f: &mut (dyn FrameSymbolizer + Send)) -> Result<(), FillSymbolError> { Err(FillSymbolError {}) }
    async fn walk_frame(&self, _m: &(dyn Module + Sync), _w: &mut (dyn FrameWalker + Send)) -> Option<()> { None }
    async fn get_file_path(&self, _m: &(dyn Module + Sync), _k: FileKind) -> Result<std::path::PathBuf, FileError> { Err(FileError::NotFound) }
    fn stats(&self) -> std::collections::HashMap<String, SymbolStats> { std::collections::HashMap::new() }
    fn pending_stats(&self) -> PendingSymbolStats { PendingSymbolStats::default() }
}

#[cfg(kani)]
#[kani::proof]
#[kani::unwind(6)]
fn z_amd64_fp_step() {
    let mut ctx = CONTEXT_AMD64::default();
    ctx.rip = kani::any(); ctx.rsp = kani::any(); ctx.rbp = kani::any();
    let callee = StackFrame::from_context(MinidumpContext::from_raw(MinidumpRawContext::Amd64(ctx.clone())), FrameTrust::Context);
    let bytes: [u8; 32] = kani::any();
    let base: u64 = kani::any();
    kani::assume(base.checked_add(32).is_some());
    let mem = MinidumpMemory { desc: Default::default(), base_address: base, size: 32, bytes: &bytes, endian: Endian::Little };
    let modules = MinidumpModuleList::new();
    let si = SystemInfo { os: minidump::system_info::Os::Linux, os_version: None, os_build: None, cpu: minidump::system_info::Cpu::X86_64, cpu_info: None, cpu_microcode_version: None, cpu_count: 1 };
    let p = NoSyms { valid: false };
    let r = block_on(verif_get_caller_frame(&callee, None, UnifiedMemory::Memory(&mem), &modules, &si, &p));
    if let Some(f) = r {
        let ip = f.context.get_instruction_pointer();
        let sp = f.context.get_stack_pointer();
        assert!(ip >= 4096);
        assert!(f.instruction == ip - 1);
        assert!(sp > ctx.rsp);
        assert!(f.trust == FrameTrust::FramePointer || f.trust == FrameTrust::Scan);
        std::mem::forget(f);
    }
}

#[cfg(kani)]
#[kani::proof]
#[kani::unwind(6)]
fn z_x86_fp_sync() {
    use minidump::format::CONTEXT_X86;
    let mut ctx = CONTEXT_X86::default();
    ctx.eip = kani::any(); ctx.esp = kani::any(); ctx.ebp = kani::any();
    let callee = StackFrame::from_context(MinidumpContext::from_raw(MinidumpRawContext::X86(ctx.clone())), FrameTrust::Context);
    let bytes: [u8; 16] = kani::any();
    let base: u64 = kani::any();
    kani::assume(base <= u32::MAX as u64);
    let mem = MinidumpMemory { desc: Default::default(), base_address: base, size: 16, bytes: &bytes, endian: Endian::Little };
    let modules = MinidumpModuleList::new();
    let si = SystemInfo { os: minidump::system_info::Os::Linux, os_version: None, os_build: None, cpu: minidump::system_info::Cpu::X86, cpu_info: None, cpu_microcode_version: None, cpu_count: 1 };
    let p = NoSyms { valid: false };
    let r = verif_x86_frame_pointer(&ctx, &callee, UnifiedMemory::Memory(&mem), &modules, &si, &p);
    if let Some(f) = r {
        let sp = f.context.get_stack_pointer();
        assert!(sp == ctx.ebp as u64 + 8);
        assert!(f.trust == FrameTrust::FramePointer);
        std::mem::forget(f);
    }
    std::mem::forget(callee);
}

#[cfg(kani)]
#[kani::proof]
#[kani::unwind(4)]
fn za_async_trivial() {
    let x: u32 = kani::any();
    let r = block_on(async { x.wrapping_add(1) });
    assert!(r == x.wrapping_add(1));
}
struct DummyFrame { instruction: u64, has_name: bool }
impl FrameSymbolizer for DummyFrame {
    fn get_instruction(&self) -> u64 { self.instruction }
    fn set_function(&mut self, name: &str, _b: u64, _p: u32) { self.has_name = !name.is_empty(); }
    fn set_source_file(&mut self, _f: &str, _l: u32, _b: u64) {}
}
#[cfg(kani)]
#[kani::proof]
#[kani::unwind(4)]
fn zb_async_trait_call() {
    let p = NoSyms { valid: false };
    let m = MinidumpModule::new(0x1000, 0x100, "m");
    let mut f = DummyFrame { instruction: kani::any(), has_name: false };
    let r = block_on(p.fill_symbol(&m, &mut f));
    assert!(r.is_err());
    std::mem::forget(m);
}

#[cfg(kani)]
#[kani::proof]
#[kani::unwind(7)]
fn zc_x86_step() {
    use minidump::format::CONTEXT_X86;
    let mut ctx = CONTEXT_X86::default();
    ctx.eip = kani::any(); ctx.esp = kani::any(); ctx.ebp = kani::any();
    let callee = StackFrame::from_context(MinidumpContext::from_raw(MinidumpRawContext::X86(ctx.clone())), FrameTrust::Context);
    let bytes: [u8; 16] = kani::any();
    let base: u64 = kani::any();
    kani::assume(base <= u32::MAX as u64);
    let mem = MinidumpMemory { desc: Default::default(), base_address: base, size: 16, bytes: &bytes, endian: Endian::Little };
    let modules = MinidumpModuleList::new();
    let si = SystemInfo { os: minidump::system_info::Os::Linux, os_version: None, os_build: None, cpu: minidump::system_info::Cpu::X86, cpu_info: None, cpu_microcode_version: None, cpu_count: 1 };
    let p = NoSyms { valid: false };
    let r = block_on(verif_get_caller_frame(&callee, None, UnifiedMemory::Memory(&mem), &modules, &si, &p));
    if let Some(f) = r {
        let ip = f.context.get_instruction_pointer();
        let sp = f.context.get_stack_pointer();
        assert!(ip >= 4096);
        assert!(f.instruction == ip - 1);
        assert!(sp > ctx.esp as u64);
        assert!(f.trust == FrameTrust::FramePointer || f.trust == FrameTrust::Scan);
        std::mem::forget(f);
    }
    std::mem::forget(callee);
}

#[cfg(kani)]
#[kani::proof]
#[kani::unwind(7)]
fn p_confidence() {
    let d = minidump_processor::BitFlipDetails { was_non_canonical: kani::any(), is_null: kani::any(), was_low: kani::any(), nearby_registers: kani::any(), poison_registers: kani::any() };
    let c = d.confidence();
    assert!(c >= 0.0 && c <= 1.0);
}

#[cfg(kani)]
#[kani::proof]
#[kani::unwind(7)]
fn zd_x86_scan() {
    use minidump::format::CONTEXT_X86;
    let mut ctx = CONTEXT_X86::default();
    ctx.eip = kani::any(); ctx.esp = kani::any(); ctx.ebp = kani::any();
    let callee = StackFrame::from_context(MinidumpContext::from_raw(MinidumpRawContext::X86(ctx.clone())), FrameTrust::Context);
    let bytes: [u8; 16] = kani::any();
    let base: u64 = kani::any();
    kani::assume(base <= u32::MAX as u64);
    let mem = MinidumpMemory { desc: Default::default(), base_address: base, size: 16, bytes: &bytes, endian: Endian::Little };
    let modules = MinidumpModuleList::new();
    let si = SystemInfo { os: minidump::system_info::Os::Linux, os_version: None, os_build: None, cpu: minidump::system_info::Cpu::X86, cpu_info: None, cpu_microcode_version: None, cpu_count: 1 };
    let p = NoSyms { valid: false };
    let r = block_on(verif_x86_scan(&ctx, &callee, UnifiedMemory::Memory(&mem), &modules, &si, &p));
    if let Some(f) = r { assert!(f.trust == FrameTrust::Scan); std::mem::forget(f); }
    std::mem::forget(callee);
}

#[cfg(kani)]
#[kani::proof]
#[kani::unwind(7)]
fn ze_x86_cfi() {
    use minidump::format::CONTEXT_X86;
    let mut ctx = CONTEXT_X86::default();
    ctx.eip = kani::any(); ctx.esp = kani::any(); ctx.ebp = kani::any();
    let callee = StackFrame::from_context(MinidumpContext::from_raw(MinidumpRawContext::X86(ctx.clone())), FrameTrust::Context);
    let bytes: [u8; 16] = kani::any();
    let base: u64 = kani::any();
    kani::assume(base <= u32::MAX as u64);
    let mem = MinidumpMemory { desc: Default::default(), base_address: base, size: 16, bytes: &bytes, endian: Endian::Little };
    let modules = MinidumpModuleList::new();
    let si = SystemInfo { os: minidump::system_info::Os::Linux, os_version: None, os_build: None, cpu: minidump::system_info::Cpu::X86, cpu_info: None, cpu_microcode_version: None, cpu_count: 1 };
    let p = NoSyms { valid: false };
    let r = block_on(verif_x86_cfi(&ctx, &callee, UnifiedMemory::Memory(&mem), &modules, &si, &p));
    if let Some(f) = r { assert!(f.trust == FrameTrust::CallFrameInfo); std::mem::forget(f); }
    std::mem::forget(callee);
}

#[cfg(kani)]
#[kani::proof]
#[kani::unwind(8)]
fn zf_fpo_real_walker() {
    use minidump::format::CONTEXT_X86;
    use breakpad_symbols::fuzzing_private_exports::{StackInfoWin, WinStackThing};
    let mut ctx = CONTEXT_X86::default();
    ctx.eip = kani::any(); ctx.esp = kani::any(); ctx.ebp = kani::any(); ctx.ebx = kani::any(); ctx.esi = kani::any();
    let bytes: [u8; 16] = kani::any();
    let base: u64 = kani::any(); kani::assume(base <= u32::MAX as u64);
    let mem = MinidumpMemory { desc: Default::default(), base_address: base, size: 16, bytes: &bytes, endian: Endian::Little };
    let module = MinidumpModule::new(0, 1, "m");
    let valid = MinidumpContextValidity::All;
    let saved: u32 = kani::any(); let local: u32 = kani::any(); let gcps: u32 = kani::any();
    kani::assume(saved <= 64 && local <= 64 && gcps <= 64 && saved + gcps >= 8);
    let info = StackInfoWin { address: 0, size: 16, prologue_size: 0, epilogue_size: 0, parameter_size: 0,
        saved_register_size: saved, local_size: local, max_stack_size: 0,
        program_string_or_base_pointer: WinStackThing::AllocatesBasePointer(kani::any()) };
    let mut ok = false;
    let (_c, v) = verif_with_cfi_walker_x86(&ctx, &valid, UnifiedMemory::Memory(&mem), &module, true, gcps, |w| {
        ok = breakpad_symbols::walker::walk_with_stack_win_fpo(&info, w).is_some();
    });
    if ok {
        assert!(v.contains("eip") && v.contains("esp") && v.contains("ebp"));
        assert!(!v.contains("esi")); // STACK WIN must not forward registers it did not set
    }
    std::mem::forget(module); std::mem::forget(v);
}
