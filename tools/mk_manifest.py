#!/usr/bin/env python3
"""Regenerate /verif/MANIFEST.json from the table below (keeps it schema-valid)."""
import json, os, subprocess

ROOT = os.path.dirname(os.path.dirname(os.path.abspath(__file__)))
TECH = "Kani proof harnesses over the real code, decided by CBMC (bit-precise bounded model checking, unwinding assertions on) + CaDiCaL, against an independent reference model; counterexamples replayed natively"
TRUST = ("Trusted base: Kani 0.68 / CBMC 6.11 / CaDiCaL; the empty tracing shim; the association-list VecSet / VecMap standing in for std HashSet / HashMap (validity sets, CFI rule table) under cfg(rust_minidump_verif); "
         "the reference models and mock FrameWalker/SymbolProvider in /verif/kani/src; allocation never fails; 64-bit usize. Holds only within the bounds listed in the evidence file.")

CLAIMED = {
    "C01": ("Bounded model checking of the reader kernels, one function (or a few) per harness, on fully symbolic bounded buffers in both byte orders: location_slice, ensure_count_in_bound, read_stream_list / read_ex_stream_list (incl. the Vec::with_capacity argument on every path), the three string readers, the exception stream incl. print, breakpad info, MinidumpMemory::read and reads from it, the handle data stream (header arithmetic incl. the descriptor-size 0 boundary, object-info record, chain termination), MinidumpMiscInfo::read at the variant boundaries, MinidumpContext::print for all 9 CPU types, MinidumpThread::print incl. the stack dump for any stack length, and the byte-string kernels of the Linux key/value streams (trim/split). Decides: no panic / overflow / out-of-bounds, termination of the chain walk, and that no allocation is sized from a count the stream cannot back. Not decided: Minidump::read and the directory (BTreeMap), the composite list streams that build hash or range maps, module name/CodeView assembly, Display/Debug formatting, whole-file memory bound.",
            "buffers of 6-48 bytes for variable-length readers, full-size records for fixed layouts; list streams of at most 2 elements"),
    "C02": ("Per-record round trip: a reference encoder (independent of minidump-synth and scroll's Pwrite) writes symbolic field values at the transcribed Microsoft/Breakpad offsets in a symbolic byte order; "
            "the real Pread impl parses; every field must come back equal, the wire size must match and a buffer one byte short must be rejected. Covers 33 wire structs (header, directory, descriptors, thread, module, "
            "exception, system info, misc info 1-5, memory info, handle descriptors, the 9 CPU contexts), the hand-written CodeView readers and debug-id derivation, context layout selection by architecture + flag check. "
            "Not decided: whole-dump serialisation, names, the directory's last-duplicate-wins rule, UnifiedMemoryList lookups.",
            "one record per harness; quick tier = records up to 200 bytes, thorough tier adds the large contexts and misc-info 3-5"),
    "C04": ("One inductive unwinding step of the frame-pointer technique per architecture (x86, amd64, arm/iOS, arm64, arm64_old) through a cfg-guarded forwarder to the real private function: arbitrary callee registers, validity fixed per harness, 16-32 symbolic stack bytes at an arbitrary base, both byte orders; the caller frame must equal the calling-convention formulae (return address, stack pointer, frame pointer, trust, exact validity set), None exactly when the documented preconditions fail, never a panic. Plus ptr_auth_strip of both ARM64 layouts on two modules with symbolic placement (mask from the end of the highest module, Apple default as floor), and the real CfiStackWalker: its constructor from_ctx_and_args on a real one-module list (a walker exists iff frame.instruction - not the raw ip - lies in the module; grand-callee bookkeeping, forwarded callee-saved registers) and each FrameWalker callback (width conversion without touching validity on failure, callee validity honoured, clear removes exactly one name, stack reads in the dump's byte order). One step from an arbitrary state covers chains of any depth for this technique. Not decided: CFI evaluation order and scan inside the async drivers, technique priority, return-address adjustment, MIPS, module/function labels.",
            "one step; stack window 16 (32-bit) / 32 (64-bit) bytes; empty module list for the frame-pointer step, one or two modules (assembled by a hook) for the constructor and the pointer-auth mask"),
    "C06": ("The real eval_cfi_expr on concrete program texts (token sequence enumerated by a generator: all programs of <= 2 core tokens, all well-formed 3-token binary-operator programs, curated longer ones up to 9 tokens; thorough: all 3-token core programs and 2-token programs over the wider alphabet) with every numeric input symbolic: two callee registers (value or unknown), CFA (value or unavailable), two memory cells at symbolic addresses. Result compared with a reference interpreter of the documented postfix language that never sees the text. Programs that divide by something other than a small power-of-two literal or multiply two non-literals run with 12-bit operands (64-bit multiplier/divider equivalence is out of reach for SAT); 90 programs with 16+-digit literals or chained hard operators are excluded and listed. Rule tables: parse_cfi_exprs run for real on concrete record texts (label grammar, `$reg:` = `reg:`, expression extent, later rule wins within and across records, malformed records rejected), and walk_with_stack_cfi run for real with the parser replaced by a table oracle (records parsed INIT-then-deltas, .cfa and .ra mandatory, CFA rule evaluated without a CFA, set_cfa/set_ra then every register in table order, a rule that fails to evaluate clears the register, failure before the CFA/RA are known stores nothing); the rule table is an association list standing in for HashMap under the verification cfg. Also the CfiStackWalker callback every rule result goes through (too-wide result leaves the register unknown). Not decided: parser and evaluator back to back on one text (the parser's pointer-difference sub-slices are not constants for the symbolic executor), HashMap iteration order effects, walk_frame's address rule, literals of 16+ digits.",
            "programs of at most 3 tokens exhaustively (core alphabet) plus curated programs up to 9 tokens; all 64-bit values except the 12-bit narrowing stated above"),
    "C07": ("walk_with_stack_win_fpo and win_frame_size executed symbolically for every value of the u32 size fields, callee esp/ebp/ebx (value or unknown), eip, has-grand-callee, grand-callee parameter size and a 4-word stack window at any 64-bit address; the outcome must equal the documented FPO formulae in exact arithmetic (incl. the leftover-return-address skip and the ebp slot), fail cleanly (None, no panic) on any overflow/underflow/unreadable word, set only eip/esp/ebp/ebx. clear_stack_win_caller_registers driven into the real x86 CfiStackWalker (known finding: the $-prefixed names clear nothing); the walker's grand-callee bookkeeping through the real constructor. Not decided: program strings (eval_win_expr does not finish symbolic execution even for 4-token programs), parser-side record repair, framedata-over-fpo preference.",
            "one record, one step, 4-word window"),
    "C08": ("Both copies of into_rangemap_safe (minidump-common trait and the symbol parser's) run for real on 2 (thorough: 3) entries with arbitrary (base, size, value) over all of u64; the third-party RangeMap::try_from_iter is replaced "
            "by a recorder that returns Ok iff its documented precondition (sorted, pairwise disjoint) holds and stores what it was handed. Decides: building never fails, stored ranges sorted/disjoint, every address of a stored range is covered by an "
            "input entry with that value, an entry intersecting no other is kept for every address inside it. RangeMap::get checked directly on fixed 2-element maps; memory_range() constructors checked for None iff size 0 or overflow. "
            "MinidumpUnloadedModuleList::modules_at_address on three possibly overlapping unloaded modules reports exactly the modules covering the address. Not decided: typed wrappers as such, lists longer than 3, the sorts inside the two from_modules.",
            "2 entries (quick), 3 entries (thorough)"),
    "C09": ("The numeric field kernels hex_str::<u64>, hex_str::<u32>, decimal_u32 on every byte string up to two bytes beyond their digit caps, against a reference fold: digits consumed, value, overflow rejection, no panic; and the parser-local range-map builder that finish() ends in (its unwrap can never fire, checked up to the range_map constructor's contract on 2 records). Not decided (the larger part of the property): the nom line grammar, parse_more/finish_item, the 10 KiB..160 KiB buffer state machine.",
            "inputs of at most 18 / 10 / 12 bytes; 2 records"),
    "C11": ("Function::get_inlinee_at_depth and get_outermost_sourceloc (inline branch) on 3 inlinee records with symbolic (depth<=2, address, size, call line) assumed sorted by (depth, address) and a symbolic query, against a linear scan; and SymbolFile::fill_symbol on a symbol file with 2 FUNC and 2 PUBLIC records with symbolic addresses/sizes, any module base and instruction: FUNC containing the address else nearest PUBLIC unless cut off by a FUNC, bases never exceed the instruction, nothing below the module base, no overflow. Parameter size: taken from the STACK WIN framedata record, else the FPO record, else the FUNC record that contains the instruction. Not decided: line records, inline frame emission (needs the hash-map name tables), inline order reversal.",
            "3 inlinee records; 2 FUNC + 2 PUBLIC records, empty name tables"),
    "C14": ("MinidumpException::read + get_crash_address for every 168-byte exception stream, byte order, OS and CPU (all variants incl. Unknown) against the documented function; CrashReason for Windows records (access-violation / in-page-error kind gated by parameter count and kind value, everything else total), for Linux/Android (signal and si_code carried faithfully, unknown signal -> Unknown(code, flags)), macOS/iOS (total) and OSes without a table (exactly Unknown(code, flags)), with only the WinError/NTSTATUS lookup tables stubbed out; CrashReason::from_windows_error's decoding order and bit fields (whole code as WinError, then NTSTATUS, then - only with a severity bit - facility bits 16..27 plus error bits 0..15, else WindowsUnknown(code)) with the two membership tables replaced by nondeterministic recording stubs; MinidumpMiscInfo process id / process times reported iff their flag bits are set. Not decided: the contents of the WinError/NTSTATUS tables, thread/call-stack mapping, requesting-thread and context choice, unloaded-module offsets (all inside the async whole-dump into_process_state).",
            "one exception record"),
    "C17": ("The leaf-name kernel every lookup path is built from (leafname, safe_leafname) on all ASCII strings up to 5 bytes: the leaf is the last component, has no separator, and what the lookups use is never empty, '.', '..' or drive-prefixed. "
            "The step from 'safe leaf' to 'safe relative path' is a stated manual reduction (leaf/hex-id/leaf' joins). Not decided: replace_or_add_extension, join, id formatting, non-ASCII names.",
            "ASCII names of at most 5 bytes"),
    "C18": ("For each CPU context type (quick: x86, amd64, arm in full and the sp/ip names of the other six; thorough: all nine in full) and each register name or alias of the architecture table, with the whole register file and the written value symbolic: reading through the name sees the architecture slot, write-then-read returns the value, the write lands in that slot and nowhere else, memoize_register gives the canonical name; validity sets (All, empty, {canonical}, {name}, {alias spelling}, {unrelated}) are honoured by get_register, by the type-erased MinidumpContext dispatchers and by valid_registers; REGISTERS equals the architecture list; the enumerations yield every register once with its slot value; sp/ip names agree with the dedicated accessors; unknown names of 1-3 bytes give None. Not decided: format_register text; CpuContext::registers() stepping beyond x86 (amd64 in the thorough tier).",
            "names enumerated (finite), values solved; unknown names up to 3 bytes over [A-Za-z0-9_$.]"),
    "C19": ("BitFlipDetails::confidence for every details value (bit-precise f32): in [0,1], never NaN, no index panic; BitRange::range equals the documented platform ranges; MemoryOperation::is_possibly_allowed_for / is_allowed_for against the Windows page-protection constants for every protection word; PossibleBitFlip::calculate_heuristics with a full amd64 context (thorough); reachability of a candidate through try_bit_flips. The candidate loop itself (every address vs. 'single bit inside the range') does not fit in 45 GB and is not decided; nor are the early return for an accessible address, platform gating, the register pass.",
            "all details values; three bit ranges"),
}

NA = {
    "C03": "Whole-pipeline property (process_minidump over hash/range containers, join_all, disassembler, serde_json): not encodable in Kani/CBMC here (design probes c,e,k,q,r,t); the one encodable mechanism it anchors (STACK WIN size arithmetic) is decided under C07.",
    "C05": "The property is the validity/progress check at the end of each async get_caller_frame. Retried in the build phase with the techniques cut away (frame pointer stubbed by an oracle, CFI through an oracle symbol provider, scan starved by a memory stub) and the architecture's driver called directly: CBMC spends its time simplifying assignments to the nested future state (unions of structs holding whole CPU contexts) and did not finish symbolic execution in 90 min; async fns cannot be replaced by Kani stubs (opaque return types differ) and the check cannot be separated by an add-only hook. The frame-pointer overflow guards are decided under C04.",
    "C10": "Quantifies over chunk schedules of the streaming parser; the body is nom parsing over a buffer window with symbolic bounds plus a 10 KiB Vec, the configuration that does not finish symbolic execution (design probes g,h).",
    "C12": "Concurrency over futures_util::lock::Mutex (atomics, waker slab) and a CacheMap of Arcs keyed by Strings: Kani has no model of the wake-up protocol and hash maps are out of reach (probes c,d).",
    "C13": "Quantifies over hash seeds and executor schedules of the whole pipeline; hash-container internals cannot be encoded, the pipeline cannot be run symbolically.",
    "C15": "The subject is text produced by serde_json and fmt (string-building loops over heap containers), exactly what has to be stubbed out for anything else to be tractable.",
    "C16": "File system, temp files, HTTP client and future cancellation: FFI and I/O without a model in Kani; crash points of a streaming download are not expressible.",
    "C20": "Process exit status and byte-exact stdout/stderr of a binary using clap, tokio and the file system: outside any solver model available here.",
}

hooks = subprocess.run(["git", "-C", "/repo", "log", "--format=%h %s"], stdout=subprocess.PIPE, text=True).stdout.splitlines()
hook_commits = [l.split()[0] for l in hooks if l.split(" ", 1)[1].startswith("verif hooks")]

man = {
    "version": 1,
    "setup_cmd": "./check --setup",
    "hooks": {
        "guard": "rust_minidump_verif",
        "enable": "RUSTFLAGS='--cfg rust_minidump_verif' exported by ./check for every cargo kani build (honoured for all path dependencies on /repo)",
        "baseline_off_cmd": "cd /repo && cargo test --workspace --no-fail-fast --offline",
        "source_commits": hook_commits,
        "add_only": True,
    },
    "engines": [{"name": "kani-cbmc", "path": "/verif/kani", "serves_properties": sorted(CLAIMED),
                 "kind_free_text": "Kani 0.68 proof harnesses over the real crates (path dependencies on /repo, rebuilt every run), decided by CBMC 6.11 + CaDiCaL; driver /verif/check; generators /verif/kani/gen"}],
    "checks": [],
    "notes": "All checks: exit 0 = every harness decided and no unlisted failing check; exit 1 = VIOLATION (replayed natively); exit 2 = inconclusive (timeout/OOM/tool error/vacuous), never success. See DESIGN.md.",
    "not_applicable": [{"property_id": k, "reason": v} for k, v in sorted(NA.items())],
}
for pid in sorted(CLAIMED):
    text, bounds = CLAIMED[pid]
    man["checks"].append({
        "property_id": pid,
        "quick_cmd": f"./check {pid} --tier quick",
        "thorough_cmd": f"./check {pid} --tier thorough",
        "evidence_file": f"/verif/evidence/{pid}.json",
        "replay_cmd_template": f"./check {pid} --replay {{path}}",
        "engine": "kani-cbmc",
        "level_claimed": {"category": "model_checking", "text": text + " Bounds: " + bounds + ".", "design_ref": f"DESIGN.md section 5, {pid}"},
        "level_note": TRUST,
        "technique": TECH,
    })
json.dump(man, open(os.path.join(ROOT, "MANIFEST.json"), "w"), indent=1)
print("claimed:", sorted(CLAIMED), "n/a:", sorted(NA))
