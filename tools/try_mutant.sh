#!/bin/bash
# usage: try_mutant.sh <seeded-dir-name> [PROP]   e.g. try_mutant.sh C07-3
# Applies /verif/seeded/<name>/patch.diff to a private worktree of /repo HEAD and runs the property's quick
# check against it (shadow harness crate, private target dir). Leaves /repo untouched.
N=$1; P=${2:-${N:0:3}}
W=/tmp/mut/$N
mkdir -p /tmp/mut
if [ ! -d $W/wt ]; then git -C /repo worktree add -q --detach $W/wt HEAD; fi
cd $W/wt && git checkout -q --detach $(git -C /repo rev-parse HEAD) && git checkout -q -- . && git clean -fdq
if ! git apply /verif/seeded/$N/patch.diff 2> $W/apply.err; then echo "MUTANT $N prop=$P result=PATCH-DOES-NOT-APPLY"; exit 0; fi
cd /verif
VERIF_REPO=$W/wt VERIF_TARGET_DIR=$W/target timeout 5400 ./check $P --tier ${TIER:-quick} --jobs ${JOBS:-4} ${EXTRA} > $W/check.log 2>&1
rc=$?
echo "MUTANT $N prop=$P rc=$rc $(grep -c '^VIOLATION' $W/check.log) violation line(s); $(grep -E 'failing check|INCONCLUSIVE' $W/check.log | head -3 | tr '\n' ';' | cut -c1-300)"
# free disk: keep only the logs
mkdir -p $W/logs; cp $W/target/log-*.txt $W/logs/ 2>/dev/null
rm -rf $W/target
git -C /repo worktree remove --force $W/wt 2>/dev/null
