#!/bin/bash
# usage: try_mutant_inplace.sh <seeded-dir-name> [extra check args]
# Applies /verif/seeded/<name>/patch.diff to /repo ITSELF (the paths the registered commands use), runs the
# property's quick check with a private target dir, and reverts /repo straight afterwards (also on interrupt).
# Only for use when nothing else is reading /repo.
N=$1; shift; P=${N:0:3}
W=/tmp/mut/$N; mkdir -p $W
if [ -n "$(git -C /repo status --porcelain)" ]; then echo "/repo not clean"; exit 3; fi
trap 'git -C /repo checkout -q -- . ; git -C /repo clean -fdq' EXIT
git -C /repo apply /verif/seeded/$N/patch.diff || { echo "MUTANT $N PATCH-DOES-NOT-APPLY"; exit 0; }
cd /verif
VERIF_TARGET_DIR=$W/target-inplace timeout 5400 ./check $P --tier ${TIER:-quick} --jobs ${JOBS:-6} "$@" > $W/check.log 2>&1
rc=$?
echo "MUTANT $N prop=$P rc=$rc (in place) $(grep -c '^VIOLATION' $W/check.log) violation line(s); $(grep -E 'failing check|INCONCLUSIVE' $W/check.log | head -3 | tr '\n' ';' | cut -c1-300)"
mkdir -p $W/logs; cp $W/target-inplace/log-*.txt $W/logs/ 2>/dev/null
rm -rf $W/target-inplace
