#!/usr/bin/env python3
"""Summarise tools/try_mutant.sh runs (/tmp/mut/<id>/check.log) into /verif/seeded/RESULTS.md and
record the outcome in each seeded/<id>/meta.json."""
import json, os, re, sys

rows = []
for d in sorted(os.listdir("/verif/seeded")):
    p = os.path.join("/verif/seeded", d)
    if not os.path.isdir(p):
        continue
    log = f"/tmp/mut/{d}/check.log"
    meta = json.load(open(os.path.join(p, "meta.json")))
    outcome, detail = "not run", ""
    if os.path.exists(log):
        t = open(log).read()
        viol = re.findall(r"^VIOLATION property=(\S+) replay=(\S+)", t, re.M)
        fails = re.findall(r"failing check: (.*)", t)
        if viol:
            outcome = "DETECTED"
            detail = "; ".join(sorted(set(fails)))[:300]
        elif "INCONCLUSIVE" in t:
            outcome = "inconclusive"
            detail = "; ".join(re.findall(r"^   (c\d\d_\S+: .*)", t, re.M))[:300]
        elif re.search(r"\] OK: \d+ harnesses", t):
            outcome = "missed"
        else:
            outcome = "error"
            detail = t[-200:].replace("\n", " ")
        meta["framework_result"] = dict(outcome=outcome, failing_checks=sorted(set(fails)), cmd=f"tools/try_mutant.sh {d}  (quick tier of {meta.get('breaks_property')} against a worktree with patch.diff applied)")
        json.dump(meta, open(os.path.join(p, "meta.json"), "w"), indent=1)
    rows.append((d, meta.get("breaks_property"), outcome, meta.get("summary", "")[:140].replace("|", "/"), detail.replace("|", "/")))

out = ["# Seeded changes vs. the quick checks", "",
       "`tools/try_mutant.sh <id>` applies `seeded/<id>/patch.diff` to a scratch worktree of /repo HEAD and runs",
       "`./check <property> --tier quick` against it (shadow harness crate, private target dir); runs that came out",
       "inconclusive there (solver behaviour depends on the repository path, DESIGN section 7) were repeated with",
       "`tools/try_mutant_inplace.sh <id>`, which applies the patch to /repo itself and reverts it afterwards.",
       "DETECTED = exit 1 with a VIOLATION line after the counterexample failed natively (a replay that merely ran out of",
       "recorded values counts as not reproduced); missed = exit 0; inconclusive = exit 2.  Detections were re-run on the",
       "failing harness alone after the replay criterion was corrected; the last run of each change is what is shown.", "",
       "| id | property | outcome | change | failing check(s) |", "|---|---|---|---|---|"]
for r in rows:
    out.append("| %s | %s | **%s** | %s | %s |" % r)
det = sum(1 for r in rows if r[2] == "DETECTED")
out += ["", f"{det} of {len(rows)} detected."]
open("/verif/seeded/RESULTS.md", "w").write("\n".join(out) + "\n")
print(f"{det}/{len(rows)} detected")
