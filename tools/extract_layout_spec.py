#!/usr/bin/env python3
"""One-off: transcribe the wire layouts of the minidump structs into kani/gen/layout_spec.json.

Run once against the pinned tree (53644d4) when the framework was built; the JSON
is the *specification* the C02 harnesses compare the real `Pread` impls against
(field order and widths follow Microsoft's minidumpapiset.h / Breakpad's
minidump_format.h, which format.rs documents per struct).  ./check never runs this.
"""
import json, re, sys
src = open("/repo/minidump-common/src/format.rs").read()
PRIM = {"u8": 1, "u16": 2, "u32": 4, "u64": 8, "u128": 16, "i8": 1, "i16": 2, "i32": 4, "i64": 8, "RVA": 4, "RVA64": 8}
PRIM_TY = {"RVA": "u32", "RVA64": "u64"}
structs = {}
for m in re.finditer(r"pub struct (\w+)\s*\{(.*?)\n\s*\}", src, re.S):
    name, body = m.group(1), m.group(2)
    fields = []
    for fm in re.finditer(r"^\s*(pub )?(\w+):\s*([^,\n]+),", body, re.M):
        # private (reserved) fields occupy wire bytes but cannot be compared from outside the crate
        fields.append((("" if fm.group(1) else "#") + fm.group(2), fm.group(3).strip()))
    structs[name] = fields
# multi_structs are cumulative
for chain in (["MINIDUMP_MISC_INFO", "MINIDUMP_MISC_INFO_2", "MINIDUMP_MISC_INFO_3", "MINIDUMP_MISC_INFO_4", "MINIDUMP_MISC_INFO_5"],):
    acc = []
    for n in chain:
        acc = acc + structs[n]
        structs[n] = list(acc)

def leaves(ty, path):
    """-> list of (expr, width, rust_ty, count) relative offsets computed by caller; arrays of primitives are one leaf with count"""
    ty = ty.strip()
    m = re.match(r"\[(.+);\s*(\w+)\s*\]$", ty)
    if m:
        inner, n = m.group(1).strip(), m.group(2)
        n = int(re.sub(r"usize$", "", n))
        if inner in PRIM:
            return [(path, PRIM[inner], PRIM_TY.get(inner, inner), n)]
        out = []
        for i in range(n):
            out += leaves(inner, f"{path}[{i}]")
        return out
    if ty in PRIM:
        return [(path, PRIM[ty], PRIM_TY.get(ty, ty), 0)]
    if ty in structs:
        out = []
        for f, t in structs[ty]:
            out += leaves(t, f"{path}.{f}")
        return out
    raise KeyError(ty)

WANT = ["MINIDUMP_HEADER", "MINIDUMP_LOCATION_DESCRIPTOR", "MINIDUMP_MEMORY_DESCRIPTOR", "MINIDUMP_MEMORY_DESCRIPTOR64", "MINIDUMP_DIRECTORY",
        "MINIDUMP_THREAD_NAME", "MINIDUMP_MODULE", "MINIDUMP_UNLOADED_MODULE", "VS_FIXEDFILEINFO", "GUID", "MINIDUMP_THREAD",
        "MINIDUMP_EXCEPTION_STREAM", "MINIDUMP_EXCEPTION", "MINIDUMP_SYSTEM_INFO", "MINIDUMP_MEMORY_INFO", "MINIDUMP_BREAKPAD_INFO", "MINIDUMP_ASSERTION_INFO",
        "MINIDUMP_HANDLE_OBJECT_INFORMATION", "MINIDUMP_HANDLE_DESCRIPTOR", "MINIDUMP_HANDLE_DESCRIPTOR_2", "MINIDUMP_THREAD_INFO",
        "MINIDUMP_MISC_INFO", "MINIDUMP_MISC_INFO_2", "MINIDUMP_MISC_INFO_3", "MINIDUMP_MISC_INFO_4", "MINIDUMP_MISC_INFO_5",
        "CONTEXT_X86", "CONTEXT_AMD64", "CONTEXT_ARM", "CONTEXT_ARM64", "CONTEXT_ARM64_OLD", "CONTEXT_PPC", "CONTEXT_PPC64", "CONTEXT_MIPS", "CONTEXT_SPARC",
        "SYSTEMTIME", "TIME_ZONE_INFORMATION", "XSTATE_CONFIG_FEATURE_MSC_INFO", "IMAGE_DEBUG_MISC"]
spec = {}
for n in WANT:
    try:
        ls = []
        off = 0
        for f, t in structs[n]:
            for (p, w, rt, cnt) in leaves(t, f):
                if not p.startswith("#"):
                    ls.append(dict(expr=p, offset=off, width=w, ty=rt, count=cnt))
                off += w * (cnt or 1)
        spec[n] = dict(size=off, leaves=ls)
    except KeyError as e:
        print("skip", n, "unknown type", e, file=sys.stderr)
json.dump(spec, open("/verif/kani/gen/layout_spec.json", "w"), indent=0, sort_keys=True)
for n in spec:
    print(n, spec[n]["size"], len(spec[n]["leaves"]))
