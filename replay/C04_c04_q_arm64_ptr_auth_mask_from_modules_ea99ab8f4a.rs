// counterexample(s) for harness c04_frame_pointer::c04_q_arm64_ptr_auth_mask_from_modules (property C04)
// failing checks not listed in known-findings.txt: ['harness:c04_q_arm64_ptr_auth_mask_from_modules:assertion failed: hook::arm64_ptr_auth_strip(&list, ptr) == ptr & ref_mask(max_addr)']
// module: c04_frame_pointer
// stubs active in the solver run but NOT in the native replay (the real function runs there): none
// replay: /verif/check C04 --replay /verif/replay/C04_c04_q_arm64_ptr_auth_mask_from_modules_ea99ab8f4a.rs
// native result, dev profile: {"kani_concrete_playback_c04_q_arm64_ptr_auth_mask_from_modules_1146132318684738454": "ok", "kani_concrete_playback_c04_q_arm64_ptr_auth_mask_from_modules_12716914304162167860": "FAILED"}
// native result, release profile: {"kani_concrete_playback_c04_q_arm64_ptr_auth_mask_from_modules_1146132318684738454": "ok", "kani_concrete_playback_c04_q_arm64_ptr_auth_mask_from_modules_12716914304162167860": "FAILED"}
/// Test generated for harness `c04_frame_pointer::c04_q_arm64_ptr_auth_mask_from_modules` 
///
/// Check for `assertion`: "assertion failed: hook::arm64_ptr_auth_strip(&list, ptr) == ptr & ref_mask(max_addr)"

#[test]
fn kani_concrete_playback_c04_q_arm64_ptr_auth_mask_from_modules_12716914304162167860() {
    let concrete_vals: Vec<Vec<u8>> = vec![
        // 3458760109331578880ul
        vec![0, 0, 0, 128, 254, 251, 255, 47],
        // 134217728
        vec![0, 0, 0, 8],
        // 9223372036041080832ul
        vec![0, 0, 128, 207, 255, 255, 255, 127],
        // 2961178624
        vec![0, 0, 128, 176],
        // 1
        vec![1],
        // 14153810874220937208ul
        vec![248, 255, 255, 255, 255, 111, 108, 196],
    ];
    kani::concrete_playback_run(concrete_vals, c04_q_arm64_ptr_auth_mask_from_modules);
}

/// Test generated for harness `c04_frame_pointer::c04_q_arm64_ptr_auth_mask_from_modules` 
///
/// Check for `cover`: "a module above the default split widens the mask"

#[test]
fn kani_concrete_playback_c04_q_arm64_ptr_auth_mask_from_modules_1146132318684738454() {
    let concrete_vals: Vec<Vec<u8>> = vec![
        // 10674516279286562818ul
        vec![2, 0, 0, 0, 0, 128, 35, 148],
        // 129
        vec![129, 0, 0, 0],
        // 15539529776753541251ul
        vec![131, 0, 0, 0, 0, 128, 167, 215],
        // 4294967169
        vec![129, 255, 255, 255],
        // 0
        vec![0],
        // 4930315692063850496ul
        vec![0, 0, 0, 0, 0, 0, 108, 68],
    ];
    kani::concrete_playback_run(concrete_vals, c04_q_arm64_ptr_auth_mask_from_modules);
}
