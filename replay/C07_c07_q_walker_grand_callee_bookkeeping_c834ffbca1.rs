// counterexample(s) for harness c04_cfi_walker::c07_q_walker_grand_callee_bookkeeping (property C07)
// failing checks not listed in known-findings.txt: ['harness:c07_q_walker_grand_callee_bookkeeping:assertion failed: got.1 == has_gc']
// module: c04_cfi_walker
// stubs active in the solver run but NOT in the native replay (the real function runs there): minidump::MinidumpModuleList::module_at_address
// replay: /verif/check C07 --replay /verif/replay/C07_c07_q_walker_grand_callee_bookkeeping_c834ffbca1.rs
// native result, dev profile: {"kani_concrete_playback_c07_q_walker_grand_callee_bookkeeping_6850379111943380737": "FAILED"}
// native result, release profile: {"kani_concrete_playback_c07_q_walker_grand_callee_bookkeeping_6850379111943380737": "FAILED"}
/// Test generated for harness `c04_cfi_walker::c07_q_walker_grand_callee_bookkeeping` 
///
/// Check for `assertion`: "assertion failed: got.1 == has_gc"
///
/// # Warning
///
/// Concrete playback tests combined with stubs or contracts is highly
/// experimental, and subject to change.
///
/// The original harness has stubs which are not applied to this test.
/// This may cause a mismatch of non-deterministic values if the stub
/// creates any non-deterministic value.
/// The execution path may also differ, which can be used to refine the stub
/// logic.

#[test]
fn kani_concrete_playback_c07_q_walker_grand_callee_bookkeeping_6850379111943380737() {
    let concrete_vals: Vec<Vec<u8>> = vec![
        // 0
        vec![0, 0, 0, 0],
        // 0
        vec![0, 0, 0, 0],
        // 0
        vec![0, 0, 0, 0],
        // 0
        vec![0, 0, 0, 0],
        // 0
        vec![0, 0, 0, 0],
        // 0
        vec![0, 0, 0, 0],
        // 0
        vec![0, 0, 0, 0],
        // 0ul
        vec![0, 0, 0, 0, 0, 0, 0, 0],
        // 1
        vec![1],
        // 0
        vec![0],
    ];
    kani::concrete_playback_run(concrete_vals, c07_q_walker_grand_callee_bookkeeping);
}
