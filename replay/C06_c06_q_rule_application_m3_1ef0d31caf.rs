// counterexample(s) for harness c06_rules::c06_q_rule_application_m3 (property C06)
// failing checks not listed in known-findings.txt: ['other:kani_lib.c:__rust_dealloc:free argument has offset zero', 'other:kani_lib.c:__rust_dealloc:free argument must be NULL or valid pointer', 'other:kani_lib.c:__rust_dealloc:free argument must be dynamic object', 'other:kani_lib.c:__rust_dealloc:rust_dealloc must be called on an object whose allocated size matches its layout']
// module: c06_rules
// stubs active in the solver run but NOT in the native replay (the real function runs there): none
// replay: /verif/check C06 --replay /verif/replay/C06_c06_q_rule_application_m3_1ef0d31caf.rs
// native result, dev profile: {}
// native result, release profile: {}
/// Test generated for harness `c06_rules::c06_q_rule_application_m3` 
///
/// Check for `assertion`: "rust_dealloc must be called on an object whose allocated size matches its layout"
///
/// # Warning
///
/// Concrete playback tests combined with stubs or contracts is highly
/// experimental, and subject to change.
///
/// The original harness has stubs which are not applied to this test.
/// This may cause a mismatch of non-deterministic values if the stub
/// creates any non-deterministic value.
/// The execution path may also differ, which can be used to refine the stub
/// logic.

#[test]
fn kani_concrete_playback_c06_q_rule_application_m3_8928841513091841001() {
    let concrete_vals: Vec<Vec<u8>> = vec![
        // 0
        vec![0],
        // 0
        vec![0],
        // 0ul
        vec![0, 0, 0, 0, 0, 0, 0, 0],
        // 0ul
        vec![0, 0, 0, 0, 0, 0, 0, 0],
    ];
    kani::concrete_playback_run(concrete_vals, c06_q_rule_application_m3);
}
